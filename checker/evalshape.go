package main

// Structure of the evaluator (analyses C and D): special-form regions, the
// loop-carried cells, and the Form/Value classification of every MalType value
// inside EVAL, eval_ast, do, macroexpand and quasiquote.

import (
	"go/constant"
	"go/token"
	"go/types"
	"sort"
	"strings"

	"golang.org/x/tools/go/ssa"
)

type evalModel struct {
	w   *World
	e   *Engine
	ok  bool
	why string

	EVAL, evalAst, doFn, macroexpand, quasiquote, qqLoop, isMacroCall, apply *ssa.Function
	newSub, newSubBinds                                                      *ssa.Function

	astParam, envParam, ctxParam *ssa.Parameter
	envCell, ctxCell, astCell    *ssa.Alloc // nil when the parameter is not spilled
	envPhi                       *ssa.Phi   // the loop-carried scope when it is not spilled to a cell
	header                       *ssa.BasicBlock
	astPhi                       *ssa.Phi
	dispatch                     ssa.Value // the string the special-form switch compares
	regions                      map[string]map[*ssa.BasicBlock]bool
	regionNames                  []string
	defaultRegion                map[*ssa.BasicBlock]bool
	stepBlocks                   map[*ssa.BasicBlock]bool // blocks that exist only for stepping (per function)
	stepHelpers                  []*ssa.Function          // package functions only ever called from stepping code
	flags                        map[*ssa.Global]bool
	// evaluation helpers: functions of the package, other than the named evaluator functions, that are called
	// from them (transitively) and themselves evaluate forms, create scopes or write bindings.  Their blocks
	// belong to the region of their call site(s) and their scope/context/form parameters stand for the arguments.
	helpers     []*ssa.Function
	helperSites map[*ssa.Function][]ssa.CallInstruction
	thin        map[*ssa.Function]*ssa.Call // helpers that only wrap one evaluating call
}

func newEvalModel(w *World, e *Engine) *evalModel {
	m := &evalModel{w: w, e: e, regions: map[string]map[*ssa.BasicBlock]bool{}, stepBlocks: map[*ssa.BasicBlock]bool{}, flags: map[*ssa.Global]bool{}}
	get := func(pkg, name string) *ssa.Function {
		f := w.Fn(pkg, name)
		if f == nil && m.why == "" {
			m.why = "function " + pkg + "." + name + " no longer resolves"
		}
		return f
	}
	m.EVAL, m.evalAst, m.doFn = get("", "EVAL"), get("", "eval_ast"), get("", "do")
	m.macroexpand, m.quasiquote, m.qqLoop, m.isMacroCall = get("", "macroexpand"), get("", "quasiquote"), get("", "qq_loop"), get("", "is_macro_call")
	m.apply = get("types", "Apply")
	m.newSub, m.newSubBinds = get("env", "NewSubordinateEnv"), get("env", "NewSubordinateEnvWithBinds")
	if m.why != "" {
		return m
	}
	// EVAL must be the function stored in MalFunc.Eval by the fn special form
	// (by EVAL itself or by a function of its package that builds the closure for it)
	stored := false
	for _, f := range w.Funcs {
		if f.Pkg != m.EVAL.Pkg || isTestFunc(w, f) {
			continue
		}
		for _, b := range f.Blocks {
			for _, in := range b.Instrs {
				if st, ok := in.(*ssa.Store); ok {
					if fa, ok := st.Addr.(*ssa.FieldAddr); ok && fieldName(fa.X.Type(), fa.Field) == "Eval" {
						if st.Val == ssa.Value(m.EVAL) {
							stored = true
						}
						// ... or a function of EVAL's own signature that calls EVAL (a wrapper around it: what it
						// passes on is the business of the scope and context rules)
						var wf *ssa.Function
						switch x := st.Val.(type) {
						case *ssa.MakeClosure:
							wf, _ = x.Fn.(*ssa.Function)
						case *ssa.Function:
							wf = x
						}
						if wf != nil && wf != m.EVAL && types.Identical(wf.Signature.Params(), m.EVAL.Signature.Params()) && callsFn(wf, m.EVAL) {
							stored = true
						}
					}
				}
			}
		}
	}
	if !stored {
		m.why = "EVAL is no longer the function stored in MalFunc.Eval"
		return m
	}
	for _, p := range m.EVAL.Params {
		switch {
		case isContext(p.Type()):
			m.ctxParam = p
		case isMalType(p.Type()):
			m.astParam = p
		case strings.HasSuffix(p.Type().String(), "types.EnvType"):
			m.envParam = p
		}
	}
	if m.ctxParam == nil || m.astParam == nil || m.envParam == nil {
		m.why = "EVAL's parameters (context, ast, env) not recognised"
		return m
	}
	m.envCell, m.ctxCell = spillCell(m.envParam), spillCell(m.ctxParam)
	// the evaluation loop: the natural loop whose header has a phi fed by the ast parameter
	for _, l := range naturalLoops(m.EVAL) {
		for _, in := range l.header.Instrs {
			phi, ok := in.(*ssa.Phi)
			if !ok {
				break
			}
			for _, op := range phi.Edges {
				if op == ssa.Value(m.astParam) {
					m.header, m.astPhi = l.header, phi
				}
			}
		}
	}
	if m.header == nil {
		// the form is kept in a cell (a closure of EVAL reads it): the evaluation loop is the loop with the
		// most assignments to that cell
		if cell := spillCell(m.astParam); cell != nil && !cellVolatile(cell) {
			best := 0
			for _, l := range naturalLoops(m.EVAL) {
				blocks := loopBlocks(l)
				n := 0
				for _, st := range m.e.storesTo(cell) {
					if st.Parent() == m.EVAL && blocks[st.Block()] {
						n++
					}
				}
				if n > best {
					best, m.header, m.astCell = n, l.header, cell
				}
			}
		}
	}
	if m.header == nil {
		m.why = "evaluation loop with a loop-carried form not found in EVAL"
		return m
	}
	if m.envCell == nil {
		for _, in := range m.header.Instrs {
			if phi, ok := in.(*ssa.Phi); ok {
				for _, op := range phi.Edges {
					if op == ssa.Value(m.envParam) {
						m.envPhi = phi
					}
				}
			}
		}
	}
	// dispatch value: the string compared against the most string constants
	cnt := map[ssa.Value]int{}
	for _, b := range m.EVAL.Blocks {
		if iff := blockIf(b); iff != nil {
			if x, _, ok := strEq(iff.Cond); ok {
				cnt[x]++
			}
		}
	}
	best := 0
	for v, n := range cnt {
		if n > best {
			best, m.dispatch = n, v
		}
	}
	if best < 8 {
		m.why = "special-form dispatch (a string compared with the form names) not found"
		return m
	}
	// the dispatch is the chain of comparisons each of which is reached by the false edge of the one before; a
	// test of the same string further down (inside an arm) is an ordinary condition, not a case of the dispatch
	isCase := func(b *ssa.BasicBlock) bool {
		iff := blockIf(b)
		if iff == nil {
			return false
		}
		x, _, ok := strEq(iff.Cond)
		return ok && x == m.dispatch
	}
	inChain := map[*ssa.BasicBlock]bool{}
	for _, b := range m.EVAL.Blocks {
		if !isCase(b) {
			continue
		}
		// a head of a chain: no case block falls into it by its false edge
		head := true
		for _, p := range b.Preds {
			if isCase(p) && len(p.Succs) == 2 && p.Succs[1] == b {
				head = false
			}
		}
		if !head {
			continue
		}
		n := 0
		for c := b; c != nil && isCase(c) && !inChain[c]; c = c.Succs[1] {
			n++
			_ = n
			inChain[c] = true
		}
	}
	// keep the longest family only when several heads exist: cases of the dispatch dominate the stray tests
	{
		var heads []*ssa.BasicBlock
		for b := range inChain {
			head := true
			for _, p := range b.Preds {
				if inChain[p] && len(p.Succs) == 2 && p.Succs[1] == b {
					head = false
				}
			}
			if head {
				heads = append(heads, b)
			}
		}
		if len(heads) > 1 {
			size := func(h *ssa.BasicBlock) int {
				n := 0
				for c := h; c != nil && inChain[c]; c = c.Succs[1] {
					n++
					if n > 1000 {
						break
					}
				}
				return n
			}
			bestH, bestN := heads[0], -1
			for _, h := range heads {
				if k := size(h); k > bestN || (k == bestN && h.Index < bestH.Index) {
					bestH, bestN = h, k
				}
			}
			for _, h := range heads {
				if h == bestH {
					continue
				}
				// a shorter chain nested inside an arm of the dispatch (dominated by the main chain's head) is no part of it
				if bestH.Dominates(h) && size(h) < 3 {
					for c := h; c != nil && inChain[c]; {
						nx := c.Succs[1]
						delete(inChain, c)
						c = nx
					}
				}
			}
		}
	}
	var lastFalse *ssa.BasicBlock
	for _, b := range m.EVAL.Blocks {
		iff := blockIf(b)
		if iff == nil {
			continue
		}
		x, s, ok := strEq(iff.Cond)
		if !ok || x != m.dispatch || !inChain[b] {
			continue
		}
		reg := map[*ssa.BasicBlock]bool{}
		for _, c := range m.EVAL.Blocks {
			if edgeDominates(b, 0, c) {
				reg[c] = true
			}
		}
		m.regions[s] = reg
		m.regionNames = append(m.regionNames, s)
		// the default region: dominated by the false edges of all comparisons = by the false edge of the last in the chain
		if lastFalse == nil || b.Succs[1].Dominates(lastFalse) == false && lastFalse.Dominates(b) {
			lastFalse = b
		}
	}
	// default region: blocks dominated by the false edge of the comparison that is dominated by all others
	var last *ssa.BasicBlock
	for _, b := range m.EVAL.Blocks {
		iff := blockIf(b)
		if iff == nil {
			continue
		}
		if x, _, ok := strEq(iff.Cond); ok && x == m.dispatch && inChain[b] {
			if last == nil || last.Dominates(b) {
				last = b
			}
		}
	}
	m.defaultRegion = map[*ssa.BasicBlock]bool{}
	for _, c := range m.EVAL.Blocks {
		if edgeDominates(last, 1, c) {
			m.defaultRegion[c] = true
		}
	}
	sort.Strings(m.regionNames)
	m.computeStepBlocks()
	m.computeHelpers()
	ctxParamArgs = m.argsFor
	m.ok = true
	return m
}

func (m *evalModel) isCore(f *ssa.Function) bool {
	switch f {
	case m.EVAL, m.evalAst, m.doFn, m.macroexpand, m.quasiquote, m.qqLoop, m.isMacroCall:
		return true
	}
	return false
}

// evalRelevant: f (or a function of the package it calls) evaluates a form, creates a scope or writes a binding.
func (m *evalModel) evalRelevant(f *ssa.Function, seen map[*ssa.Function]bool) bool {
	if seen[f] {
		return false
	}
	seen[f] = true
	fns := append([]*ssa.Function{f}, allAnon(f)...)
	for _, g := range fns {
		for _, b := range g.Blocks {
			for _, in := range b.Instrs {
				ci, ok := in.(ssa.CallInstruction)
				if !ok {
					continue
				}
				if ci.Common().IsInvoke() {
					switch ci.Common().Method.Name() {
					case "Set", "SetNT", "Update", "Remove", "RemoveNT":
						if strings.HasSuffix(ci.Common().Value.Type().String(), "types.EnvType") {
							return true
						}
					}
					continue
				}
				c := ci.Common().StaticCallee()
				if c == nil {
					continue
				}
				switch c {
				case m.EVAL, m.evalAst, m.doFn, m.macroexpand, m.newSub, m.newSubBinds, m.apply:
					return true
				}
				if c.Pkg == m.EVAL.Pkg && c.Parent() == nil && !m.isCore(c) && m.evalRelevant(c, seen) {
					return true
				}
			}
		}
	}
	return false
}

func (m *evalModel) computeHelpers() {
	m.helperSites = map[*ssa.Function][]ssa.CallInstruction{}
	isStep := map[*ssa.Function]bool{}
	for _, h := range m.stepHelpers {
		isStep[h] = true
	}
	work := []*ssa.Function{m.EVAL, m.evalAst, m.doFn, m.macroexpand}
	done := map[*ssa.Function]bool{}
	for len(work) > 0 {
		f := work[0]
		work = work[1:]
		if done[f] {
			continue
		}
		done[f] = true
		for _, g := range append([]*ssa.Function{f}, allAnon(f)...) {
			for _, b := range g.Blocks {
				for _, in := range b.Instrs {
					ci, ok := in.(ssa.CallInstruction)
					if !ok {
						continue
					}
					c := ci.Common().StaticCallee()
					if c == nil || c.Pkg != m.EVAL.Pkg || m.isCore(c) || isStep[c] || len(c.Blocks) == 0 {
						continue
					}
					if c.Parent() != nil && !calledWhereDefined(ci) {
						continue
					}
					if !m.evalRelevant(c, map[*ssa.Function]bool{}) {
						continue
					}
					if _, known := m.helperSites[c]; !known {
						m.helpers = append(m.helpers, c)
					}
					m.helperSites[c] = append(m.helperSites[c], ci)
					work = append(work, c)
				}
			}
		}
	}
}

// helperOf: the evaluation helper a function is (or is a closure inside of), if any.
func (m *evalModel) helperOf(f *ssa.Function) *ssa.Function {
	for g := f; g != nil; g = g.Parent() {
		if _, ok := m.helperSites[g]; ok {
			return g
		}
	}
	return nil
}

// liftBlock: the blocks of EVAL (or another named evaluator function) from which control is in block b of a helper.
func (m *evalModel) liftBlock(b *ssa.BasicBlock, depth int) []*ssa.BasicBlock {
	h := m.helperOf(b.Parent())
	if h == nil || depth > 6 {
		return []*ssa.BasicBlock{b}
	}
	var out []*ssa.BasicBlock
	for _, s := range m.helperSites[h] {
		out = append(out, m.liftBlock(s.Block(), depth+1)...)
	}
	return out
}

// argsFor: the arguments a helper's parameter stands for, one per call site.
func (m *evalModel) argsFor(p *ssa.Parameter) []ssa.Value {
	h := p.Parent()
	sites, ok := m.helperSites[h]
	if !ok {
		return nil
	}
	idx := -1
	for i, q := range h.Params {
		if q == p {
			idx = i
		}
	}
	var out []ssa.Value
	for _, s := range sites {
		if idx >= 0 && idx < len(s.Common().Args) {
			out = append(out, s.Common().Args[idx])
		}
	}
	return out
}

func blockIf(b *ssa.BasicBlock) *ssa.If {
	if len(b.Instrs) == 0 {
		return nil
	}
	iff, _ := b.Instrs[len(b.Instrs)-1].(*ssa.If)
	return iff
}

func strEq(v ssa.Value) (ssa.Value, string, bool) {
	bo, ok := v.(*ssa.BinOp)
	if !ok || bo.Op != token.EQL {
		return nil, "", false
	}
	if c, ok := bo.Y.(*ssa.Const); ok && c.Value != nil && c.Value.Kind() == constant.String {
		return bo.X, constant.StringVal(c.Value), true
	}
	return nil, "", false
}

// spillCell: the local cell a parameter is copied into at function entry (parameters captured by closures).
func spillCell(p *ssa.Parameter) *ssa.Alloc {
	for _, ref := range *p.Referrers() {
		if st, ok := ref.(*ssa.Store); ok && st.Val == ssa.Value(p) {
			if al, ok := st.Addr.(*ssa.Alloc); ok && st.Block() == p.Parent().Blocks[0] {
				return al
			}
		}
	}
	return nil
}

func (m *evalModel) regionOf(b *ssa.BasicBlock) string {
	if m.helperSites != nil && m.helperOf(b.Parent()) != nil {
		// a helper's blocks belong to the region of its call sites (when they agree)
		name, first := "", true
		for _, lb := range m.liftBlock(b, 0) {
			if lb.Parent() != m.EVAL {
				return ""
			}
			rn := m.regionOf(lb)
			if first {
				name, first = rn, false
			} else if rn != name {
				return ""
			}
		}
		return name
	}
	best := ""
	for name, reg := range m.regions {
		if reg[b] {
			best = name
		}
	}
	if best == "" && m.defaultRegion[b] {
		return "<application>"
	}
	return best
}

// isEnvLoad: v is the current scope (load of the env cell, or the env parameter itself when not spilled).
func (m *evalModel) isCurrentScope(v ssa.Value) bool {
	if m.envCell == nil {
		return m.isCurrentScopeSSA(v, map[ssa.Value]bool{})
	}
	if ld, ok := v.(*ssa.UnOp); ok && ld.Op == token.MUL {
		return cellOf(ld.X) == m.envCell
	}
	return false
}

// isCurrentScopeSSA: the scope is not spilled: the current scope is the parameter, the loop-carried phi,
// or a merge of those.
func (m *evalModel) isCurrentScopeSSA(v ssa.Value, seen map[ssa.Value]bool) bool {
	if v == ssa.Value(m.envParam) || (m.envPhi != nil && v == ssa.Value(m.envPhi)) {
		return true
	}
	// the merge at the loop bottom that becomes the next iteration's scope
	if phi, ok := v.(*ssa.Phi); ok && m.envPhi != nil && phi != m.envPhi {
		for _, op := range m.envPhi.Edges {
			if op == v {
				return true
			}
		}
	}
	if phi, ok := v.(*ssa.Phi); ok && !seen[v] {
		seen[v] = true
		for _, op := range phi.Edges {
			if !m.isCurrentScopeSSA(op, seen) {
				return false
			}
		}
		return true
	}
	return false
}

// scopeSwitch: a place where EVAL replaces its current scope (a store to the scope cell, or an edge of
// the loop-carried scope phi that carries another value than the current scope).
type scopeSwitch struct {
	val   ssa.Value
	block *ssa.BasicBlock
	pos   token.Pos
}

func (m *evalModel) scopeSwitches() []scopeSwitch {
	var out []scopeSwitch
	if m.envCell != nil {
		for _, st := range m.e.storesTo(m.envCell) {
			if st.Block().Parent() != m.EVAL || st.Val == ssa.Value(m.envParam) {
				continue
			}
			out = append(out, scopeSwitch{st.Val, st.Block(), st.Pos()})
		}
		return out
	}
	if m.envPhi == nil {
		return nil
	}
	seen := map[*ssa.Phi]bool{}
	var walk func(phi *ssa.Phi)
	walk = func(phi *ssa.Phi) {
		if seen[phi] {
			return
		}
		seen[phi] = true
		for i, op := range phi.Edges {
			if m.isCurrentScope(op) {
				if p, ok := op.(*ssa.Phi); ok {
					walk(p)
				}
				continue
			}
			if p, ok := op.(*ssa.Phi); ok {
				walk(p)
				continue
			}
			pred := phi.Block().Preds[i]
			pos := op.Pos()
			if in, ok := op.(ssa.Instruction); ok && in.Block() != nil && m.regionOf(in.Block()) != "" {
				pred = in.Block()
			}
			out = append(out, scopeSwitch{op, pred, pos})
		}
	}
	walk(m.envPhi)
	return out
}

// ---------------------------------------------------------------------------
// stepping blocks: control-dependent on Stepper != nil or on a stepping flag

func (m *evalModel) computeStepBlocks() {
	stepper := m.w.SPkg[modPath].Members["Stepper"]
	fns := []*ssa.Function{m.EVAL, m.doFn, m.evalAst, m.macroexpand}
	// candidate flags: bool globals of the package written inside these functions or their closures
	var all []*ssa.Function
	for _, f := range fns {
		all = append(all, f)
		all = append(all, allAnon(f)...)
	}
	// ... or inside the unexported functions of the package they call (stepping code moved into named functions)
	seenFn := map[*ssa.Function]bool{}
	for _, f := range all {
		seenFn[f] = true
	}
	for i := 0; i < len(all); i++ {
		for _, b := range all[i].Blocks {
			for _, in := range b.Instrs {
				ci, ok := in.(ssa.CallInstruction)
				if !ok {
					continue
				}
				c := ci.Common().StaticCallee()
				if c == nil || c.Pkg != m.EVAL.Pkg || c.Parent() != nil || seenFn[c] || len(c.Blocks) == 0 || c.Object() == nil || c.Object().Exported() {
					continue
				}
				seenFn[c] = true
				all = append(all, c)
				all = append(all, allAnon(c)...)
			}
		}
	}
	for _, f := range all {
		for _, b := range f.Blocks {
			for _, in := range b.Instrs {
				if st, ok := in.(*ssa.Store); ok {
					if g, ok := st.Addr.(*ssa.Global); ok && g.Pkg == m.EVAL.Pkg {
						if bt, isB := g.Type().(*types.Pointer).Elem().Underlying().(*types.Basic); isB && bt.Kind() == types.Bool {
							m.flags[g] = true
						}
					}
				}
			}
		}
	}
	guarded := func(b *ssa.BasicBlock) bool {
		for _, f := range m.e.holding(b).list() {
			if f.Kind == "nonnil" && f.K.Root == nil && stepper != nil && f.K.Glob == stepper.Name() && f.K.Path == "" {
				return true
			}
		}
		for d := b.Idom(); d != nil; d = d.Idom() {
			iff := blockIf(d)
			if iff == nil {
				continue
			}
			if ld, ok := iff.Cond.(*ssa.UnOp); ok && ld.Op == token.MUL {
				if g, ok := ld.X.(*ssa.Global); ok && m.flags[g] && edgeDominates(d, 0, b) {
					return true
				}
			}
		}
		return false
	}
	for _, f := range fns {
		for _, b := range f.Blocks {
			if guarded(b) {
				m.stepBlocks[b] = true
			}
		}
	}
	// package-level helpers all of whose call sites are stepping code are stepping code entirely (fixpoint)
	defer func() {
		for changed := true; changed; {
			changed = false
			for _, h := range m.w.Funcs {
				if h.Pkg != m.EVAL.Pkg || h.Parent() != nil || len(h.Blocks) == 0 || m.stepBlocks[h.Blocks[0]] {
					continue
				}
				switch h {
				case m.EVAL, m.evalAst, m.doFn, m.macroexpand, m.quasiquote, m.qqLoop, m.isMacroCall:
					continue
				}
				sites, all := 0, true
				for _, f := range m.w.Funcs {
					if isTestFunc(m.w, f) {
						continue
					}
					for _, b := range f.Blocks {
						for _, in := range b.Instrs {
							if ci, ok := in.(ssa.CallInstruction); ok && ci.Common().StaticCallee() == h {
								sites++
								if !m.stepBlocks[b] {
									all = false
								}
							}
							// address taken: not a pure helper
							for _, op := range in.Operands(nil) {
								if *op == ssa.Value(h) {
									if ci, ok := in.(ssa.CallInstruction); !ok || ci.Common().Value != ssa.Value(h) {
										all = false
									}
								}
							}
						}
					}
				}
				if sites > 0 && all {
					for _, b := range h.Blocks {
						m.stepBlocks[b] = true
					}
					m.stepHelpers = append(m.stepHelpers, h)
					changed = true
				}
			}
		}
	}()
	// closures created (or called) in stepping blocks are stepping code entirely
	for _, f := range fns {
		for _, an := range allAnon(f) {
			for _, b := range f.Blocks {
				for _, in := range b.Instrs {
					isRef := false
					if mc, ok := in.(*ssa.MakeClosure); ok && mc.Fn == ssa.Value(an) {
						isRef = true
					}
					if ci, ok := in.(ssa.CallInstruction); ok && ci.Common().StaticCallee() == an {
						isRef = true
					}
					if isRef && m.stepBlocks[b] {
						for _, ab := range an.Blocks {
							m.stepBlocks[ab] = true
						}
					}
				}
			}
		}
	}
}

// ---------------------------------------------------------------------------
// Form / Value classification

type cls int

const (
	clsUnknown cls = iota
	clsNil
	clsForm
	clsValue
	clsMixed
)

func (c cls) String() string {
	return [...]string{"unknown", "nil", "form", "value", "mixed"}[c]
}

func joinCls(a, b cls) cls {
	switch {
	case a == b:
		return a
	case a == clsNil:
		return b
	case b == clsNil:
		return a
	case a == clsUnknown || b == clsUnknown:
		return clsUnknown
	}
	return clsMixed
}

type classifier struct {
	m    *evalModel
	memo map[ssa.Value]cls
	busy map[ssa.Value]bool
}

func (m *evalModel) classifier() *classifier {
	return &classifier{m: m, memo: map[ssa.Value]cls{}, busy: map[ssa.Value]bool{}}
}

// astParamOf: the parameter of an evaluator function that carries the form to evaluate.
func (m *evalModel) astParamIndex(fn *ssa.Function) int {
	switch fn {
	case m.EVAL, m.evalAst, m.macroexpand, m.doFn, m.isMacroCall:
		for i, p := range fn.Params {
			if isMalType(p.Type()) {
				return i
			}
		}
	case m.quasiquote:
		return 0
	}
	return -1
}

func (c *classifier) of(v ssa.Value) cls {
	if r, ok := c.memo[v]; ok {
		return r
	}
	if c.busy[v] {
		return clsNil // neutral element: cycles through phis contribute nothing
	}
	c.busy[v] = true
	r := c.compute(v)
	delete(c.busy, v)
	c.memo[v] = r
	return r
}

func (c *classifier) compute(v ssa.Value) cls {
	m := c.m
	switch x := v.(type) {
	case *ssa.Const:
		if x.Value == nil {
			return clsNil
		}
		return clsForm // literal constants evaluate to themselves
	case *ssa.Parameter:
		fn := x.Parent()
		if i := m.astParamIndex(fn); i >= 0 && fn.Params[i] == x {
			return clsForm
		}
		if fn == m.qqLoop {
			return clsForm
		}
		// a parameter of an evaluation helper stands for the arguments at its call sites
		if args := m.argsFor(x); len(args) > 0 {
			r := clsNil
			for _, a := range args {
				r = joinCls(r, c.of(a))
			}
			return r
		}
		// so does a parameter of an unexported function of the evaluator's package that only takes forms apart
		if m.formSplitter(fn) {
			if args := m.w.callSiteArgs(x); len(args) > 0 {
				r := clsNil
				for _, a := range args {
					r = joinCls(r, c.of(a))
				}
				return r
			}
		}
		return clsUnknown
	case *ssa.Phi:
		r := clsNil
		for _, op := range x.Edges {
			r = joinCls(r, c.of(op))
		}
		return r
	case *ssa.TypeAssert:
		return c.of(x.X)
	case *ssa.Extract:
		switch t := x.Tuple.(type) {
		case *ssa.TypeAssert:
			if x.Index == 0 {
				return c.of(t.X)
			}
		case *ssa.Call:
			if x.Index == 0 {
				return c.callResult(t)
			}
			// a further result of a function that only takes forms apart (the clauses of a try form)
			if callee := t.Call.StaticCallee(); callee != nil && m.formSplitter(callee) {
				r := clsNil
				for _, b := range callee.Blocks {
					if ret, ok := b.Instrs[len(b.Instrs)-1].(*ssa.Return); ok && x.Index < len(ret.Results) && b != callee.Recover {
						r = joinCls(r, c.of(resolveRet(ret.Results[x.Index])))
					}
				}
				return r
			}
		case *ssa.Next:
			// element of a map / string being ranged over
			if rg, ok := t.Iter.(*ssa.Range); ok {
				return c.of(rg.X)
			}
		}
		return clsUnknown
	case *ssa.Call:
		return c.callResult(x)
	case *ssa.Field:
		fname := fieldName(x.X.Type(), x.Field)
		if _, name, ok := m.w.namedStruct(x.X.Type()); ok && name == "MalFunc" && (fname == "Exp" || fname == "Params") {
			return clsForm
		}
		return c.of(x.X)
	case *ssa.MakeInterface:
		return c.of(x.X)
	case *ssa.ChangeInterface:
		return c.of(x.X)
	case *ssa.ChangeType:
		return c.of(x.X)
	case *ssa.Slice:
		return c.of(x.X)
	case *ssa.Index:
		return c.of(x.X)
	case *ssa.UnOp:
		if x.Op != token.MUL {
			return clsUnknown
		}
		switch a := x.X.(type) {
		case *ssa.IndexAddr:
			return c.of(a.X)
		case *ssa.FieldAddr:
			fname := fieldName(a.X.Type(), a.Field)
			if _, name, ok := m.w.namedStruct(a.X.Type()); ok && name == "MalFunc" && (fname == "Exp" || fname == "Params") {
				return clsForm
			}
			// field of a local struct: join of what was stored into it
			if al, ok := a.X.(*ssa.Alloc); ok {
				r := clsNil
				n := 0
				for _, ref := range *al.Referrers() {
					switch u := ref.(type) {
					case *ssa.Store:
						if u.Addr == ssa.Value(al) {
							n++
							r = joinCls(r, c.of(u.Val))
						}
					case *ssa.FieldAddr:
						if u.Field == a.Field {
							for _, uu := range *u.Referrers() {
								if st, ok := uu.(*ssa.Store); ok && st.Addr == ssa.Value(u) {
									n++
									r = joinCls(r, c.of(st.Val))
								}
							}
						}
					}
				}
				if n > 0 {
					return r
				}
			}
			return c.of(a.X)
		case *ssa.Alloc, *ssa.FreeVar:
			if cell := cellOf(a); cell != nil {
				// struct literal loaded as a whole: classify by its container field
				if st, ok := cell.Type().(*types.Pointer).Elem().Underlying().(*types.Struct); ok && valueStruct(cell.Type().(*types.Pointer).Elem()) {
					r := clsNil
					n := 0
					for _, ref := range *cell.Referrers() {
						if fa, ok := ref.(*ssa.FieldAddr); ok && lispContainer(st.Field(fa.Field).Type()) {
							for _, uu := range *fa.Referrers() {
								if s2, ok := uu.(*ssa.Store); ok && s2.Addr == ssa.Value(fa) {
									n++
									r = joinCls(r, c.of(s2.Val))
								}
							}
						}
					}
					if n > 0 {
						return r
					}
					return clsForm // empty literal
				}
				// any other struct literal (the parts a helper split a form into): join of its fields
				if _, ok := cell.Type().(*types.Pointer).Elem().Underlying().(*types.Struct); ok {
					r := clsNil
					n := 0
					for _, ref := range *cell.Referrers() {
						if fa, ok := ref.(*ssa.FieldAddr); ok {
							for _, uu := range *fa.Referrers() {
								if s2, ok := uu.(*ssa.Store); ok && s2.Addr == ssa.Value(fa) {
									n++
									r = joinCls(r, c.of(s2.Val))
								}
							}
						}
					}
					if n > 0 {
						return r
					}
				}
				r := clsNil
				stores := m.e.storesTo(cell)
				if stores == nil {
					return clsUnknown
				}
				for _, st := range stores {
					r = joinCls(r, c.of(st.Val))
				}
				return r
			}
		}
		return clsUnknown
	case *ssa.Alloc:
		// slice literal backing array / varargs array: join of element stores
		r := clsNil
		for _, ref := range *x.Referrers() {
			if ia, ok := ref.(*ssa.IndexAddr); ok {
				for _, u := range *ia.Referrers() {
					if st, ok := u.(*ssa.Store); ok && st.Addr == ssa.Value(ia) {
						r = joinCls(r, c.of(st.Val))
					}
				}
			}
		}
		return r
	}
	return clsUnknown
}

func (c *classifier) callResult(call *ssa.Call) cls {
	m := c.m
	if call.Call.IsInvoke() {
		return clsValue // results of method calls on values (ErrorValue, Set, Get ...) are values
	}
	callee := call.Call.StaticCallee()
	if callee == nil {
		if _, isB := call.Call.Value.(*ssa.Builtin); isB {
			if b := call.Call.Value.(*ssa.Builtin); b.Name() == "append" {
				r := c.of(call.Call.Args[0])
				for _, a := range call.Call.Args[1:] {
					r = joinCls(r, c.of(a))
				}
				return r
			}
			return clsUnknown
		}
		return clsValue // call of a function value (Func.Fn, closure running the try body)
	}
	switch callee {
	case m.EVAL, m.evalAst, m.apply:
		if callee == m.apply && call.Parent() == m.macroexpand {
			return clsForm // the result of applying a macro is, by definition, a form
		}
		return clsValue
	case m.macroexpand, m.quasiquote, m.qqLoop:
		return clsForm
	case m.doFn:
		return c.doResult(call)
	}
	// pure projections of an argument (types.GetSlice): classified like the argument
	if callee.Parent() == nil {
		if cases := m.e.accessorCases(callee); len(cases) > 0 {
			r := clsNil
			n := 0
			for _, cs := range cases {
				if !cs.isNil && cs.param < len(call.Call.Args) {
					r = joinCls(r, c.of(call.Call.Args[cs.param]))
					n++
				}
			}
			if n > 0 {
				return r
			}
		}
	}
	if callee.Name() == "NewList" {
		r := clsNil
		for _, a := range call.Call.Args {
			r = joinCls(r, c.of(a))
		}
		if r == clsNil {
			return clsForm
		}
		return r
	}
	// closures of the evaluator (the try body runner) and evaluation helpers: join of their returns
	if _, isHelper := m.helperSites[callee]; callee.Parent() != nil || isHelper || m.formSplitter(callee) {
		r := clsNil
		for _, b := range callee.Blocks {
			if ret, ok := b.Instrs[len(b.Instrs)-1].(*ssa.Return); ok && len(ret.Results) > 0 && b != callee.Recover {
				r = joinCls(r, c.of(resolveRet(ret.Results[0])))
			}
		}
		return r
	}
	return clsUnknown
}

// doResult specialises the body helper by the constant passed for each integer parameter:
// returns whose dominating facts contradict the constants are pruned, the rest are joined.
func (c *classifier) doResult(call *ssa.Call) cls {
	m := c.m
	fn := m.doFn
	consts := map[string]int64{}
	for i, p := range fn.Params {
		if !isIntType(p.Type()) || i >= len(call.Call.Args) {
			continue
		}
		if k, ok := call.Call.Args[i].(*ssa.Const); ok && k.Value != nil {
			consts[m.e.keyOf(p).String()] = k.Int64()
		}
	}
	r := clsNil
	for _, b := range fn.Blocks {
		if len(b.Instrs) == 0 || b == fn.Recover {
			continue
		}
		ret, ok := b.Instrs[len(b.Instrs)-1].(*ssa.Return)
		if !ok || len(ret.Results) == 0 {
			continue
		}
		feasible := true
		for _, f := range m.e.holding(b).list() {
			if f.Kind != "le" && f.Kind != "ne" {
				continue
			}
			val := func(t Term) (int64, bool) {
				if t.Kind == 0 {
					return 0, true
				}
				if t.Kind == 2 {
					v, ok := consts[t.K.String()]
					return v, ok
				}
				return 0, false
			}
			a, oka := val(f.A)
			bb, okb := val(f.B)
			if !oka || !okb {
				continue
			}
			if f.Kind == "le" && !(a-bb <= f.C) {
				feasible = false
			}
			if f.Kind == "ne" && a-bb == f.C {
				feasible = false
			}
		}
		if !feasible {
			continue
		}
		r = joinCls(r, c.of(resolveRet(ret.Results[0])))
	}
	return r
}

// regionBlocks: the blocks of a special form's region - in EVAL and in the evaluation helpers called from it.
func (m *evalModel) regionBlocks(name string) []*ssa.BasicBlock {
	var out []*ssa.BasicBlock
	for _, b := range m.EVAL.Blocks {
		if m.regions[name][b] {
			out = append(out, b)
		}
	}
	for _, h := range m.helpers {
		for _, f := range append([]*ssa.Function{h}, allAnon(h)...) {
			for _, b := range f.Blocks {
				if m.regionSet(b)[name] {
					out = append(out, b)
				}
			}
		}
	}
	return out
}

// formSplitter: an unexported top-level function of the evaluator's own package that makes no evaluating call
// (it only takes forms apart or puts them together): its parameters stand for its call-site arguments and its
// result for what it returns.
func (m *evalModel) formSplitter(fn *ssa.Function) bool {
	if fn == nil || fn.Parent() != nil || len(fn.Blocks) == 0 || fn.Pkg != m.EVAL.Pkg || fn.Object() == nil || fn.Object().Exported() || m.isCore(fn) {
		return false
	}
	if _, isHelper := m.helperSites[fn]; isHelper {
		return false
	}
	return !m.evalRelevant(fn, map[*ssa.Function]bool{})
}

// regionSet: the special-form regions a block belongs to: one for a block of EVAL, the regions of all its call
// sites for a block of an evaluation helper (a helper shared by def and defmacro belongs to both).
func (m *evalModel) regionSet(b *ssa.BasicBlock) map[string]bool {
	out := map[string]bool{}
	if m.helperSites != nil && m.helperOf(b.Parent()) != nil {
		for _, lb := range m.liftBlock(b, 0) {
			if lb.Parent() != m.EVAL {
				out[""] = true
				continue
			}
			out[m.regionOf(lb)] = true
		}
		return out
	}
	out[m.regionOf(b)] = true
	return out
}

// valuesIn: the values v stands for in the given special-form region: a parameter of an evaluation helper is
// replaced by the arguments at those call sites of the helper that lie in the region (recursively); local
// cells, phis and struct fields are looked through.
func (m *evalModel) valuesIn(v ssa.Value, region string, depth int) []ssa.Value {
	var out []ssa.Value
	for _, lf := range m.e.producers(v, map[ssa.Value]bool{}, 0) {
		p, ok := lf.(*ssa.Parameter)
		if !ok || depth > 4 {
			out = append(out, lf)
			continue
		}
		h := p.Parent()
		sites, isHelper := m.helperSites[h]
		if !isHelper {
			out = append(out, lf)
			continue
		}
		idx := -1
		for i, q := range h.Params {
			if q == p {
				idx = i
			}
		}
		for _, site := range sites {
			if idx < 0 || idx >= len(site.Common().Args) || !m.regionSet(site.Block())[region] {
				continue
			}
			out = append(out, m.valuesIn(site.Common().Args[idx], region, depth+1)...)
		}
	}
	return out
}

// nextForms: the forms the evaluation loop continues with: the values that flow into the loop-carried form
// over the back edges (or are assigned to the form's cell inside the loop), each with the block it comes from.
func (m *evalModel) nextForms() (vals []ssa.Value, from []*ssa.BasicBlock) {
	if m.astPhi != nil {
		for i, op := range m.astPhi.Edges {
			pred := m.header.Preds[i]
			if m.header.Dominates(pred) {
				vals, from = append(vals, op), append(from, pred)
			}
		}
		return
	}
	if m.astCell != nil {
		for _, st := range m.e.storesTo(m.astCell) {
			if st.Parent() == m.EVAL && m.header.Dominates(st.Block()) {
				vals, from = append(vals, st.Val), append(from, st.Block())
			}
		}
	}
	return
}

// isLoopForm: v is the loop-carried form itself (the header's phi, or a load of the form's cell).
func (m *evalModel) isLoopForm(v ssa.Value) bool {
	if m.astPhi != nil && v == ssa.Value(m.astPhi) {
		return true
	}
	if ld, ok := v.(*ssa.UnOp); ok && ld.Op == token.MUL && m.astCell != nil && ld.X == ssa.Value(m.astCell) {
		return true
	}
	return false
}

// isIncomingForm: v is the form EVAL was called with (the parameter, or a load of its cell that only the
// entry store reaches).
func (m *evalModel) isIncomingForm(v ssa.Value) bool {
	if v == ssa.Value(m.astParam) {
		return true
	}
	if ld, ok := v.(*ssa.UnOp); ok && ld.Op == token.MUL && m.astCell != nil && ld.X == ssa.Value(m.astCell) {
		val, _ := m.e.cellValue(ld, m.astCell)
		return val == ssa.Value(m.astParam)
	}
	return false
}

// formLeaving: the value the form's cell holds at the end of block b, when one store decides it.
func (m *evalModel) formLeaving(b *ssa.BasicBlock) ssa.Value {
	if m.astCell == nil {
		return nil
	}
	var last ssa.Value
	for _, in := range b.Instrs {
		if st, ok := in.(*ssa.Store); ok && st.Addr == ssa.Value(m.astCell) {
			last = st.Val
		}
	}
	if last != nil {
		return last
	}
	// nothing assigned in b itself: what its single predecessor chain left
	if len(b.Preds) == 1 && b.Preds[0] != b {
		return m.formLeaving(b.Preds[0])
	}
	return nil
}

// calledWhereDefined: the call applies a function literal of the enclosing function that is used for nothing
// but being called (a local helper such as `evalIn := func(form MalType) … { return EVAL(ctx, form, env) }`):
// not deferred, not started as a goroutine, not stored, returned or passed on. Such a literal is a helper of
// the evaluator like a named function: its parameters stand for the arguments of its calls, the variables it
// captures are the enclosing function's.
func calledWhereDefined(ci ssa.CallInstruction) bool {
	if _, isCall := ci.(*ssa.Call); !isCall {
		return false
	}
	mc, ok := ci.Common().Value.(*ssa.MakeClosure)
	if !ok {
		return false
	}
	for _, ref := range *mc.Referrers() {
		switch u := ref.(type) {
		case *ssa.DebugRef:
		case *ssa.Call:
			if u.Call.Value != ssa.Value(mc) {
				return false
			}
		default:
			return false
		}
	}
	return true
}
