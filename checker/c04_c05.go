package main

import (
	"fmt"
	"go/ast"
	"go/token"
	"go/types"
	"strings"

	"golang.org/x/tools/go/ssa"
)

func init() {
	register("C04", checkC04)
	register("C05", checkC05)
}

// packages whose goroutines are part of the interpreter library (not the CLI / debugger front ends)
func libraryPkg(path string) bool {
	rel := strings.TrimPrefix(strings.TrimPrefix(path, modPath), "/")
	switch {
	case rel == "", rel == "env", rel == "types", rel == "reader", rel == "printer", rel == "lisperror", rel == "lnotation", rel == "marshaler":
		return true
	case strings.HasPrefix(rel, "lib/"):
		return true
	}
	return false
}

func (w *World) goBodies() []*ssa.Function {
	var out []*ssa.Function
	for _, fn := range w.Funcs {
		if !libraryPkg(fnPkgPath(fn)) || isTestFunc(w, fn) {
			continue
		}
		for _, b := range fn.Blocks {
			for _, in := range b.Instrs {
				if g, ok := in.(*ssa.Go); ok {
					if sc := g.Call.StaticCallee(); sc != nil {
						out = append(out, sc)
					} else if mc, ok := g.Call.Value.(*ssa.MakeClosure); ok {
						out = append(out, mc.Fn.(*ssa.Function))
					}
				}
			}
		}
	}
	return out
}

func isTestFunc(w *World, fn *ssa.Function) bool {
	p := fn.Pos()
	for f := fn; !p.IsValid() && f != nil; f = f.Parent() {
		p = f.Pos()
	}
	if !p.IsValid() {
		return false
	}
	return strings.HasSuffix(w.Fset.Position(p).Filename, "_test.go")
}

// funcFieldCtor: every composite literal of MalFunc sets Eval, GenEnv and Env;
// every literal of Func sets Fn (so calls through those fields are not nil calls
// for interpreter-made values).
func ctorRule(w *World, r *Report, rule string) {
	r.rule(rule, "every composite literal of types.MalFunc sets Eval, GenEnv, Env; every literal of types.Func sets Fn; every literal of env.Env sets data and mu")
	want := map[string][]string{
		modPath + "/types.MalFunc": {"Eval", "GenEnv", "Env"},
		modPath + "/types.Func":    {"Fn"},
		modPath + "/env.Env":       {w.roles().envData, w.roles().envMu},
	}
	n := 0
	for _, pkg := range w.Pkgs {
		if !strings.HasPrefix(pkg.PkgPath, modPath) {
			continue
		}
		for _, file := range pkg.Syntax {
			if strings.HasSuffix(w.Fset.Position(file.Pos()).Filename, "_test.go") {
				continue
			}
			ast.Inspect(file, func(node ast.Node) bool {
				cl, ok := node.(*ast.CompositeLit)
				if !ok {
					return true
				}
				tv, ok := pkg.TypesInfo.Types[cl]
				if !ok {
					return true
				}
				named, ok := tv.Type.(*types.Named)
				if !ok || named.Obj().Pkg() == nil {
					return true
				}
				full := named.Obj().Pkg().Path() + "." + named.Obj().Name()
				fields, ok := want[full]
				if !ok {
					return true
				}
				n++
				set := map[string]bool{}
				st := named.Underlying().(*types.Struct)
				for i, el := range cl.Elts {
					if kv, ok := el.(*ast.KeyValueExpr); ok {
						if id, ok := kv.Key.(*ast.Ident); ok {
							if tv, ok := pkg.TypesInfo.Types[kv.Value]; !ok || !tv.IsNil() {
								set[id.Name] = true
							}
						}
					} else if i < st.NumFields() {
						set[st.Field(i).Name()] = true
					}
				}
				var missing []string
				for _, f := range fields {
					if !set[f] {
						missing = append(missing, f)
					}
				}
				encl := enclosingFuncName(file, cl.Pos())
				status, detail := "discharged", "all required fields set"
				if len(missing) > 0 {
					status, detail = "violated", "fields left nil: "+strings.Join(missing, ",")
				}
				// the zero value handed back beside an error is a placeholder nobody calls
				if len(missing) > 0 && len(cl.Elts) == 0 {
					ast.Inspect(file, func(n2 ast.Node) bool {
						rs, ok := n2.(*ast.ReturnStmt)
						if !ok || len(rs.Results) < 2 {
							return true
						}
						for _, res := range rs.Results[:len(rs.Results)-1] {
							if res == ast.Expr(cl) {
								if id, isId := rs.Results[len(rs.Results)-1].(*ast.Ident); !isId || id.Name != "nil" {
									status, detail = "discharged", "the zero value, returned together with an error"
								}
							}
						}
						return true
					})
				}
				r.addRaw(rule, pkg.Types.Name()+"."+encl, "literal "+named.Obj().Name(), w.pos(cl.Pos()), status, detail)
				return true
			})
		}
	}
	r.floor(rule, "composite literals of MalFunc/Func/Env", n, 4)
}

func enclosingFuncName(file *ast.File, p token.Pos) string {
	name := "-"
	for _, d := range file.Decls {
		if fd, ok := d.(*ast.FuncDecl); ok && fd.Pos() <= p && p <= fd.End() {
			name = fd.Name.Name
		}
	}
	return name
}

func evalEntries(w *World) []*ssa.Function {
	var out []*ssa.Function
	for _, n := range []string{"EVAL", "REPL", "REPLWithPreamble", "ReadEvalWithPreamble", "PRINT"} {
		out = append(out, w.Fn("", n))
	}
	out = append(out, w.Fn("types", "Apply"))
	return out
}

func checkC04(w *World, r *Report) {
	e := newEngine(w)
	r.rule("C04.site", "every instruction that can panic (unchecked type assertion, index, slice, nil dereference, nil map write, division, explicit panic, nil function call) in the call closure of EVAL/Apply/REPL outside a recover barrier is dominated by a guard that excludes the panic")
	r.rule("C04.barrier", "every function value that can be stored in types.Func.Fn either starts with a deferred total recover handler or has a fully audited body")
	r.rule("C04.recover-total", "every deferred recover handler handles every recovered value without an unchecked assertion")
	r.rule("C04.go", "the body of every go statement in the library is audited as a root of its own (no barrier of the spawner protects it)")
	// whatever fails inside a try body - including a panic of a host function bound without the binder's own
	// barrier - is catchable: the function that runs the try body starts with a deferred handler that calls
	// recover() itself (recover only works in the deferred function's own frame)
	recoverDirectRule(w, r, "C04.recover-direct")
	chanCloseRule(w, r, "C04.chan-close")
	// the finally body runs in the scope the try form was evaluated in, handed to the deferred function when it is
	// registered: read from EVAL's variable when it runs, it is whatever the loop assigned since - nil when the
	// binding of a handler's tail call failed, and the nil scope panics in the deferred function, outside every recover
	r.include("C04.finally-", "C03.", "the deferred finally evaluation uses the scope it was registered with, never a later (possibly nil) value of the evaluator's scope variable", checkC03, func(rule string) bool {
		return rule == "C03.finally-scope"
	})
	r.rule("C04.try-barrier", "the function or closure that evaluates the body of try starts by deferring a function that calls recover() directly and stores the error into the runner's own result (a panic raised in a try body reaches catch instead of the host)")
	if m := newEvalModel(w, e); m.ok {
		if reg, ok := m.regions["try"]; ok {
			nr := 0
			for _, b := range m.EVAL.Blocks {
				if !reg[b] {
					continue
				}
				for _, in := range b.Instrs {
					c, ok := in.(*ssa.Call)
					if !ok {
						continue
					}
					var fn *ssa.Function
					if mc, ok := c.Call.Value.(*ssa.MakeClosure); ok {
						fn = mc.Fn.(*ssa.Function)
					} else if sc := c.Call.StaticCallee(); sc != nil {
						if _, isHelper := m.helperSites[sc]; isHelper {
							fn = sc
						}
					}
					if fn == nil || !callsFn(fn, m.doFn) || doCallMode(fn, m.doFn) != "all" {
						continue
					}
					nr++
					_, isB := w.barrierOf(fn)
					r.check(isB, "C04.try-barrier", fn, "runner of the try body", c.Pos(), "starts with defer of a function that calls recover() itself", "the try body does not run under a working recover handler (no deferred handler first, or recover() is called one frame too deep and returns nil): a panic in a try body escapes EVAL")
				}
			}
			r.floor("C04.try-barrier", "runners of the try body", nr, 1)
		} else {
			r.undecided("C04.try-barrier", nil, "try region", 0, "special form not found")
		}
	} else {
		r.undecided("C04.try-barrier", nil, "evaluator model", 0, m.why)
	}
	a := newAudit(w, e, r, "C04.site")
	a.cmp = true
	a.exempt = exemptionsC04
	entries := evalEntries(w)
	for i, f := range entries {
		if f == nil {
			r.undecided("C04.site", nil, "entry", 0, "an entry point (EVAL, REPL, REPLWithPreamble, ReadEvalWithPreamble, PRINT, types.Apply) no longer resolves: #"+string(rune('0'+i)))
			return
		}
	}
	gos := w.goBodies()
	for _, g := range gos {
		r.ok("C04.go", g, "go body", g.Pos(), "audited as a separate root")
	}
	r.floor("C04.go", "go statements in the library", len(gos), 1)
	// reader entry points are C05's business: the evaluator reaches them only through REPL*, which return reader errors unchanged
	stop := func(f *ssa.Function) bool {
		p := fnPkgPath(f)
		return p == modPath+"/reader"
	}
	a.computeClosure(append(entries, gos...), stop)
	a.hostNil = map[string][]int{}
	a.propagateNil()
	a.run()
	a.unusedExemptions()

	// C04.barrier: every function whose address is taken with the ExternalCall signature
	extSig := w.ByPath[modPath+"/types"].Types.Scope().Lookup("ExternalCall").Type().Underlying().(*types.Signature)
	nb := 0
	for _, f := range w.addrTaken() {
		if isTestFunc(w, f) || !sameParamsResults(f.Signature, extSig) {
			continue
		}
		nb++
		if h, ok := a.barriers[f]; ok {
			r.ok("C04.barrier", f, "Func.Fn value", f.Pos(), "first instruction defers recover handler "+h)
		} else if a.inClos[f] {
			r.ok("C04.barrier", f, "Func.Fn value", f.Pos(), "no barrier: body audited site by site under C04.site")
		} else if _, ok := w.barrierOf(f); ok {
			r.ok("C04.barrier", f, "Func.Fn value", f.Pos(), "starts with a deferred recover handler")
		} else {
			r.bad("C04.barrier", f, "Func.Fn value", f.Pos(), "neither a barrier nor in the audited closure")
		}
	}
	r.floor("C04.barrier", "functions usable as Func.Fn (the binder's adapters + at least one raw builtin)", nb, 3)

	// C04.recover-total: handlers of all barriers seen + malRecover
	handlers := map[*ssa.Function]bool{}
	for _, fn := range w.Funcs {
		if isTestFunc(w, fn) || !libraryPkg(fnPkgPath(fn)) {
			continue
		}
		if w.recoverHandler(fn) {
			handlers[fn] = true
		}
	}
	for h := range handlers {
		// the handler must be in the audited closure or audited now
		if !a.inClos[h] {
			sub := newAudit(w, e, r, "C04.recover-total")
			sub.exempt = exemptionsC04
			sub.closure = []*ssa.Function{h}
			sub.inClos[h] = true
			sub.run()
		}
		r.ok("C04.recover-total", h, "recover handler", h.Pos(), "audited: see its C04.site obligations")
	}
	r.floor("C04.recover-total", "recover handlers (_recover, malRecover)", len(handlers), 2)

	ctorRule(w, r, "C04.ctor")
	doPrecondRule(w, r, e)
	r.floor("C04.site", "may-panic sites in the evaluator closure", r.count("C04.site"), 50)
	r.Notes = append(r.Notes, "closure: "+closureNames(w, a.closure), "barriers: "+barrierNames(w, a))
	r.Assumptions = append(r.Assumptions,
		"context and environment arguments given to EVAL are non-nil; hand-built MalFunc/Func values with nil function fields, cyclic values and host stack exhaustion are outside the property's quantifier",
		"standard-library and third-party callees do not panic for the argument shapes used (strings, fmt, errors, context, sync, reflect.TypeOf)",
		"slice elements and struct fields read twice between a guard and its use are not written in between (values are immutable: C02)")
}

func closureNames(w *World, fs []*ssa.Function) string {
	var s []string
	for _, f := range fs {
		s = append(s, w.fnName(f))
	}
	return strings.Join(s, ", ")
}

func barrierNames(w *World, a *Audit) string {
	var s []string
	for f, h := range a.barriers {
		s = append(s, w.fnName(f)+"<-"+h)
	}
	return strings.Join(s, ", ")
}

func checkC05(w *World, r *Report) {
	e := newEngine(w)
	r.rule("C05.site", "every instruction that can panic in the call closure of READ, READWithPreamble, reader.Read_str, the read-string builtin and PRINT is guarded; parameters the documentation allows to be nil (cursor, placeholder table, environment) are tracked as may-nil through every call")
	// the reader looks constructors up in an environment other evaluations may be writing: an unlocked read of
	// the environment's map is not an error value but a fatal "concurrent map read and map write"
	scannerErrorRule(w, r, "C05.scanner-errors")
	// a stack exhausted by unbounded recursion is a fatal error of the process, not a panic a barrier stops
	printDescendsRule(w, r, "C05.print-descends")
	r.rule("C05.env-lock", "every access to Env.data reachable by the reader holds that environment's lock (shared with C11.data): the lock-free *NT methods are only called with the lock held")
	guardRule(w, r, e, "C05.env-lock", w.guardRows()[2])
	r.floor("C05.env-lock", "accesses to Env.data and calls of lock-required methods", r.count("C05.env-lock"), 10)
	typedNilResultRule(w, r, e, "C05.typed-nil")
	// a hook handed to the scanner runs inside READ, outside the audited closure: the reader hands it none
	scannerConfigRule(w, r, "C05.token-rules")
	readerReentryRule(w, r, "C05.single-text")
	a := newAudit(w, e, r, "C05.site")
	a.cmp = true
	a.exempt = exemptionsC05
	var entries []*ssa.Function
	for _, n := range []string{"READ", "READWithPreamble", "PRINT", "AddPreamble"} {
		entries = append(entries, w.Fn("", n))
	}
	entries = append(entries, w.Fn("reader", "Read_str"), w.Fn("printer", "Pr_str"))
	for _, f := range entries {
		if f == nil {
			r.undecided("C05.site", nil, "entry", 0, "a reader/printer entry point no longer resolves")
			return
		}
	}
	packageMapRule(w, r, "C05.package-maps", entries)
	// the read-string builtin: the registered function literal that calls Read_str
	readStr := w.Fn("reader", "Read_str")
	for _, fn := range w.Funcs {
		if isTestFunc(w, fn) || fnPkgPath(fn) != modPath+"/lib/core" {
			continue
		}
		for _, b := range fn.Blocks {
			for _, in := range b.Instrs {
				if c, ok := in.(ssa.CallInstruction); ok && c.Common().StaticCallee() == readStr {
					r.Notes = append(r.Notes, "read-string builtin body: "+w.fnName(fn)+" (runs behind the binder's recover barrier; Read_str itself is audited with all optional arguments nil)")
				}
			}
		}
	}
	a.hostNil = map[string][]int{
		"lisp.READ":             {1, 2},
		"lisp.READWithPreamble": {1, 2},
		"reader.Read_str":       {1, 2},
	}
	evalFn := w.Fn("", "EVAL")
	stop := func(f *ssa.Function) bool {
		// constructors called by «…» forms are functions stored in Func.Fn: binder adapters (recover
		// barriers) or host code; the evaluator reached through the eval builtin is C04's business
		return f == evalFn
	}
	a.computeClosure(entries, stop)
	a.propagateNil()
	a.run()
	a.unusedExemptions()
	progressRule(w, r, e)
	r.floor("C05.site", "may-panic sites in the reader/printer closure", r.count("C05.site"), 20)
	r.Notes = append(r.Notes, "closure: "+closureNames(w, a.closure), "barriers: "+barrierNames(w, a))
	var nilParams []string
	for p := range a.mayNil {
		nilParams = append(nilParams, w.fnName(p.Parent())+":"+p.Name())
	}
	r.Notes = append(r.Notes, "may-nil parameters: "+strings.Join(nilParams, ", "))
	r.Assumptions = append(r.Assumptions,
		"the tokenizer github.com/jig/scanner v1.2.0 terminates on every input and returns well-formed tokens (read once: every Scan consumes at least one rune or returns EOF)",
		"regexp, strconv and strings functions do not panic on arbitrary strings",
		"stack exhaustion on pathologically deep nesting is outside the claim")
}

// doPrecondRule: the body helper slices its list from index `from`; every call site must have established
// that the list has at least `from` elements (this is what the exemption of the slice inside the helper
// relies on).
func doPrecondRule(w *World, r *Report, e *Engine) {
	r.rule("C04.precond", "every call of the body helper passes a list that provably has at least `from` elements at the call site (the helper's own slice lst[from:len+to] relies on it)")
	m := newEvalModel(w, e)
	if !m.ok {
		r.undecided("C04.precond", nil, "evaluator model", token.NoPos, m.why)
		return
	}
	listT := types.TypeString(w.ByPath[modPath+"/types"].Types.Scope().Lookup("List").Type(), nil)
	n := 0
	for _, ec := range m.evalCalls() {
		if ec.callee != m.doFn {
			continue
		}
		n++
		var fromV ssa.Value
		for i, p := range m.doFn.Params {
			if isIntType(p.Type()) && fromV == nil {
				fromV = ec.call.Call.Args[i]
			}
		}
		k, isConst := fromV.(*ssa.Const)
		construct := "list passed to the body helper in " + nz(m.regionOf(ec.call.Block()), "-")
		if !isConst || k.Value == nil {
			r.bad("C04.precond", ec.fn, construct, ec.call.Pos(), "`from` is not a constant")
			continue
		}
		if k.Int64() == 0 {
			r.ok("C04.precond", ec.fn, construct, ec.call.Pos(), "from = 0")
			continue
		}
		key := e.keyOf(ec.ast)
		if !strings.HasSuffix(key.Path, ".("+listT+")") {
			key.Path += ".(" + listT + ")"
		}
		key.Path += ".Val"
		ok, why := e.proveLE(fromV, 0, Term{Kind: 1, K: key}, 0, ec.call.Block())
		r.check(ok, "C04.precond", ec.fn, construct, ec.call.Pos(), fmt.Sprintf("len >= %d: %s", k.Int64(), why), fmt.Sprintf("the form is not known to have %d elements here (%s): the helper would slice beyond the list and panic", k.Int64(), why))
	}
	r.floor("C04.precond", "calls of the body helper", n, 4)
}

// recoverDirectRule: recover() only stops a panic when it is called by the deferred function itself.  So every
// function of the module that calls recover() must be used in exactly one way: as the operand of a defer
// statement.  Calling it from another deferred function (or closure) makes it return nil and the panic goes on.
func recoverDirectRule(w *World, r *Report, rule string) {
	r.rule(rule, "every function of the module that calls recover() is only ever invoked as the operand of a defer statement (recover() returns nil when called one frame deeper, e.g. from a deferred closure that calls the handler): all recover barriers of the evaluator, the try form and the binder actually work")
	n := 0
	for _, h := range w.Funcs {
		if isTestFunc(w, h) || !strings.HasPrefix(fnPkgPath(h), modPath) || !w.recoverHandler(h) {
			continue
		}
		if h.Parent() != nil {
			// a closure that calls recover(): must itself be the deferred function
			for _, b := range h.Parent().Blocks {
				for _, in := range b.Instrs {
					mc, ok := in.(*ssa.MakeClosure)
					if !ok || mc.Fn != ssa.Value(h) {
						continue
					}
					for _, ref := range *mc.Referrers() {
						n++
						_, isDefer := ref.(*ssa.Defer)
						if _, isDbg := ref.(*ssa.DebugRef); isDbg {
							n--
							continue
						}
						r.check(isDefer, rule, h.Parent(), "use of a closure that calls recover()", ref.Pos(), "deferred directly", "a closure that calls recover() is not the operand of a defer: recover() returns nil there")
					}
				}
			}
			continue
		}
		for _, f := range w.Funcs {
			if isTestFunc(w, f) {
				continue
			}
			for _, b := range f.Blocks {
				for _, in := range b.Instrs {
					ci, ok := in.(ssa.CallInstruction)
					if !ok || ci.Common().StaticCallee() != h {
						continue
					}
					n++
					_, isDefer := in.(*ssa.Defer)
					r.check(isDefer, rule, f, "call of the recover handler "+h.Name(), in.Pos(), "defer "+h.Name()+"(…)", "the handler is called from another function instead of being deferred itself: its recover() runs one frame too deep and returns nil, so the panic it was meant to catch escapes")
				}
			}
		}
	}
	r.floor(rule, "uses of functions that call recover()", n, 3)
}

// chanCloseRule: sending on a closed channel and closing a channel twice panic, in whatever goroutine does
// it - for the goroutine of a future that is a goroutine without any recover, so the host dies. A channel
// kept in a struct field (it is shared by whoever holds the struct) that some function closes is therefore
// sent on by no other function, and closed at one place only.
func chanCloseRule(w *World, r *Report, rule string) {
	r.rule(rule, "a channel held in a struct field of the runtime packages that is closed anywhere is closed at exactly one place, and no function other than the closing one sends on it (a send on a closed channel, or a second close, is a Go panic in a goroutine no recover handler covers)")
	type fkey struct {
		t types.Type
		i int
	}
	fieldOfChan := func(v ssa.Value) (fkey, bool) {
		ld, ok := v.(*ssa.UnOp)
		if !ok || ld.Op != token.MUL {
			return fkey{}, false
		}
		fa, ok := ld.X.(*ssa.FieldAddr)
		if !ok {
			return fkey{}, false
		}
		pt, ok := fa.X.Type().Underlying().(*types.Pointer)
		if !ok {
			return fkey{}, false
		}
		return fkey{pt.Elem(), fa.Field}, true
	}
	closes := map[fkey][]ssa.Instruction{}
	sends := map[fkey][]ssa.Instruction{}
	nChanOps := 0
	for _, fn := range w.Funcs {
		if isTestFunc(w, fn) || !runtimePkg(fnPkgPath(fn)) {
			continue
		}
		for _, b := range fn.Blocks {
			for _, in := range b.Instrs {
				switch x := in.(type) {
				case *ssa.Send:
					nChanOps++
					if k, ok := fieldOfChan(x.Chan); ok {
						sends[k] = append(sends[k], in)
					}
				case *ssa.Select:
					for _, st := range x.States {
						nChanOps++
						if st.Dir == types.SendOnly {
							if k, ok := fieldOfChan(st.Chan); ok {
								sends[k] = append(sends[k], in)
							}
						}
					}
				case ssa.CallInstruction:
					if bi, ok := x.Common().Value.(*ssa.Builtin); ok && bi.Name() == "close" {
						nChanOps++
						if k, ok := fieldOfChan(x.Common().Args[0]); ok {
							closes[k] = append(closes[k], in)
						}
					}
				}
			}
		}
	}
	for k, cl := range closes {
		name := shortType(k.t) + "." + fieldName(types.NewPointer(k.t), k.i)
		for _, c := range cl[1:] {
			r.bad(rule, c.Parent(), "second close of "+name, c.Pos(), "the channel is closed at more than one place: whichever close comes second panics")
		}
		for _, s := range sends[k] {
			if s.Parent() != cl[0].Parent() {
				r.bad(rule, s.Parent(), "send on "+name+", a channel that is closed elsewhere", s.Pos(), "the channel is closed by "+cl[0].Parent().String()+" while this function still sends on it: when the close comes first the send panics in its goroutine (no recover handler there), and the embedding program dies")
			}
		}
	}
	r.add(rule, nil, "channel operations of the runtime packages", token.NoPos, "ok", fmt.Sprintf("%d sends, select cases and closes examined, %d field channels closed", nChanOps, len(closes)))
	r.floor(rule, "channel operations of the runtime packages", nChanOps, 4)
}

// packageMapRule: the Go runtime answers a map written by one goroutine while another reads or writes it
// with "fatal error: concurrent map writes" - no panic, nothing a recover handler sees, the process is gone.
// Reads run concurrently (futures, hosts serving requests), so nothing in the call closure of the reading
// and printing entry points writes into a package-level map.
func packageMapRule(w *World, r *Report, rule string, entries []*ssa.Function) {
	r.rule(rule, "no function in the call closure of READ, READWithPreamble, Read_str, PRINT and Pr_str inserts into or deletes from a map held by a package-level variable (two reads at once would abort the process with a fatal error that is neither an error value nor a recoverable panic)")
	reach := w.reachableFrom(entries)
	n := 0
	for fn := range reach {
		if isTestFunc(w, fn) {
			continue
		}
		n++
		for _, b := range fn.Blocks {
			for _, in := range b.Instrs {
				var m ssa.Value
				switch x := in.(type) {
				case *ssa.MapUpdate:
					m = x.Map
				case ssa.CallInstruction:
					if bi, ok := x.Common().Value.(*ssa.Builtin); ok && (bi.Name() == "delete" || bi.Name() == "clear") && len(x.Common().Args) > 0 {
						m = x.Common().Args[0]
					}
				}
				if m == nil {
					continue
				}
				if ld, ok := m.(*ssa.UnOp); ok && ld.Op == token.MUL {
					if gl, ok := ld.X.(*ssa.Global); ok && fn.Name() != "init" && !underWriteLock(in) {
						r.bad(rule, fn, "write into the package-level map "+gl.Name(), in.Pos(), "reading or printing writes into a map all goroutines share, without a lock: two reads at the same time end the process with 'fatal error: concurrent map writes', which no recover handler and no try/catch can intercept")
					}
				}
			}
		}
	}
	r.add(rule, nil, "call closure of the reading and printing entry points", token.NoPos, "ok", fmt.Sprintf("%d functions examined", n))
	r.floor(rule, "functions in the call closure of the reader and printer", n, 30)
}

// underWriteLock: a call of (*sync.Mutex).Lock or (*sync.RWMutex).Lock in the same function dominates the
// instruction (the write is serialised by some lock; which one is the business of C11).
func underWriteLock(in ssa.Instruction) bool {
	fn := in.Parent()
	for _, b := range fn.Blocks {
		for _, x := range b.Instrs {
			if x == in {
				break
			}
			c, ok := x.(*ssa.Call)
			if !ok || c.Call.StaticCallee() == nil || c.Call.StaticCallee().Name() != "Lock" || fnPkgPath(c.Call.StaticCallee()) != "sync" {
				continue
			}
			if b == in.Block() || b.Dominates(in.Block()) {
				return true
			}
		}
	}
	return false
}
