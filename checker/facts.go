package main

// Dominance-based fact engine over go/ssa.
//
// A fact is something known to hold whenever control reaches a block, because
// an edge of a conditional branch that establishes it dominates the block:
//   - the dynamic type of an interface value is (not) T
//   - a pointer / interface value is (not) nil
//   - a difference constraint between integer terms  A - B <= c  (or != c)
//   - an integer term is even
// Values are identified by access paths (Key) so that the evaluator's idiom of
// re-asserting `ast.(List).Val` several times names one and the same value.

import (
	"fmt"
	"os"
	"go/constant"
	"go/token"
	"go/types"
	"sort"
	"strings"

	"golang.org/x/tools/go/ssa"
)

type Key struct {
	Root ssa.Value // nil for globals
	Glob string
	Path string
}

func (k Key) String() string {
	if k.Root == nil {
		return "global:" + k.Glob + k.Path
	}
	return k.Root.Name() + k.Path
}
func (k Key) valid() bool { return k.Root != nil || k.Glob != "" }

// Term of a difference constraint: the constant zero, len(Key) or the integer value Key.
type Term struct {
	Kind int // 0 zero, 1 len, 2 val
	K    Key
}

func (t Term) String() string {
	switch t.Kind {
	case 0:
		return "0"
	case 1:
		return "len(" + t.K.String() + ")"
	}
	return t.K.String()
}

type Fact struct {
	Kind string // type | nottype | nonnil | nil | le | ne | even
	K    Key
	T    types.Type
	A, B Term
	C    int64
}

func (f Fact) String() string {
	switch f.Kind {
	case "type", "nottype":
		return f.Kind + "(" + f.K.String() + "," + types.TypeString(f.T, nil) + ")"
	case "nonnil", "nil":
		return f.Kind + "(" + f.K.String() + ")"
	case "even":
		return "even(" + f.A.String() + ")"
	}
	return fmt.Sprintf("%s(%s - %s, %d)", f.Kind, f.A, f.B, f.C)
}

type factSet map[string]Fact

func (s factSet) add(fs ...Fact) {
	for _, f := range fs {
		s[f.String()] = f
	}
}
func (s factSet) list() []Fact {
	keys := make([]string, 0, len(s))
	for k := range s {
		keys = append(keys, k)
	}
	sort.Strings(keys)
	out := make([]Fact, 0, len(s))
	for _, k := range keys {
		out = append(out, s[k])
	}
	return out
}
func intersect(a, b factSet) factSet {
	out := factSet{}
	for k, f := range a {
		if _, ok := b[k]; ok {
			out[k] = f
		}
	}
	return out
}

// ---------------------------------------------------------------------------

type Engine struct {
	w            *World
	fx           map[*ssa.Function]*fnCtx
	okSums       map[sumKey]*predSummary
	retFacts     map[*ssa.Function][]Fact
	followParams bool
	okBusy       map[sumKey]bool
	sums         map[*ssa.Function]*predSummary
	sumBusy      map[*ssa.Function]bool
	singleSt     map[*ssa.Alloc]int // number of stores to a local cell (including in closures)
	accCache     map[*ssa.Function][]accessorCase
	nnField      map[*types.Var]bool
	errSums      map[*ssa.Function][]Fact
	lockCache    map[*ssa.Function]*lockInfo
	sites        map[*ssa.Function][]ssa.CallInstruction
	escaped      map[*ssa.Function]bool
	entryOn      map[*ssa.Function]factSet
	cellVers     map[*ssa.Alloc]*cellVersions
	nnSucc       map[*ssa.Function][]int
	ge0Depth     int
	condBusy     map[*ssa.Phi]bool
	keyDepth     int
}

type fnCtx struct {
	entry     factSet
	entryDone bool
	entryBusy bool
	fn        *ssa.Function
	hold      map[*ssa.BasicBlock]factSet
	busy      map[*ssa.BasicBlock]bool
	stores    map[ssa.Value]int
}

func newEngine(w *World) *Engine {
	return &Engine{w: w, fx: map[*ssa.Function]*fnCtx{}, sums: map[*ssa.Function]*predSummary{}, sumBusy: map[*ssa.Function]bool{}}
}

func (e *Engine) ctx(fn *ssa.Function) *fnCtx {
	if c, ok := e.fx[fn]; ok {
		return c
	}
	c := &fnCtx{fn: fn, hold: map[*ssa.BasicBlock]factSet{}, busy: map[*ssa.BasicBlock]bool{}}
	e.fx[fn] = c
	return c
}

// cellStores counts the Store instructions that write the local cell a, in its
// function and in every closure nested in it (cells are shared by capture).
func (e *Engine) cellStores(a *ssa.Alloc) int {
	fn := a.Parent()
	c := e.ctx(fn)
	if c.stores == nil {
		c.stores = map[ssa.Value]int{}
		var visit func(f *ssa.Function, bind map[*ssa.FreeVar]ssa.Value)
		visit = func(f *ssa.Function, bind map[*ssa.FreeVar]ssa.Value) {
			for _, b := range f.Blocks {
				for _, in := range b.Instrs {
					switch in := in.(type) {
					case *ssa.Store:
						addr := in.Addr
						if fv, ok := addr.(*ssa.FreeVar); ok {
							if v, ok := bind[fv]; ok {
								addr = v
							}
						}
						c.stores[addr]++
					case *ssa.MakeClosure:
						cf := in.Fn.(*ssa.Function)
						nb := map[*ssa.FreeVar]ssa.Value{}
						for i, b := range in.Bindings {
							v := b
							if fv, ok := b.(*ssa.FreeVar); ok {
								if vv, ok := bind[fv]; ok {
									v = vv
								}
							}
							nb[cf.FreeVars[i]] = v
						}
						visit(cf, nb)
					}
				}
			}
		}
		visit(fn, map[*ssa.FreeVar]ssa.Value{})
	}
	return c.stores[a]
}

// keyOf computes the access path naming v.
func (e *Engine) keyOf(v ssa.Value) Key {
	switch v := v.(type) {
	case *ssa.TypeAssert:
		if !v.CommaOk {
			k := e.keyOf(v.X)
			k.Path += ".(" + types.TypeString(v.AssertedType, nil) + ")"
			return k
		}
	case *ssa.Extract:
		if ta, ok := v.Tuple.(*ssa.TypeAssert); ok && ta.CommaOk && v.Index == 0 {
			k := e.keyOf(ta.X)
			k.Path += ".(" + types.TypeString(ta.AssertedType, nil) + ")"
			return k
		}
		if c, ok := v.Tuple.(*ssa.Call); ok && v.Index == 0 {
			if k, ok := e.accessorKey(c); ok {
				return k
			}
		}
	case *ssa.Call:
		if k, ok := e.accessorKey(v); ok {
			return k
		}
	case *ssa.Field:
		k := e.keyOf(v.X)
		k.Path += "." + fieldName(v.X.Type(), v.Field)
		return k
	case *ssa.MakeInterface:
		return e.keyOf(v.X)
	case *ssa.ChangeInterface:
		return e.keyOf(v.X)
	case *ssa.ChangeType:
		return e.keyOf(v.X)
	case *ssa.UnOp:
		if v.Op == token.MUL {
			switch a := v.X.(type) {
			case *ssa.FieldAddr:
				// field of a local struct variable that is assigned exactly once
				// (typeswitch-bound variables are spilled like this): name it as a
				// field of the assigned value
				if al, ok := a.X.(*ssa.Alloc); ok && e.cellStores(al) == 1 && !e.cellCaptured(al) {
					for _, ref := range *al.Referrers() {
						if st, ok := ref.(*ssa.Store); ok && st.Addr == ssa.Value(al) {
							k := e.keyOf(st.Val)
							k.Path += "." + fieldName(a.X.Type(), a.Field)
							return k
						}
					}
				}
				k := e.keyOf(a.X)
				k.Path += "->" + fieldName(a.X.Type(), a.Field)
				return k
			case *ssa.IndexAddr:
				k := e.keyOf(a.X)
				k.Path += "[" + e.idxString(a.Index) + "]"
				return k
			case *ssa.Global:
				return Key{Glob: a.Name()}
			case *ssa.Alloc:
				if e.cellStores(a) <= 1 {
					return Key{Root: a, Path: "*"}
				}
				if fwd := e.forwarded(v, a); fwd != nil {
					return e.keyOf(fwd)
				}
				// the value of the one store that reaches this load, or the first load of the same version
				if e.keyDepth < 12 {
					e.keyDepth++
					val, rep := e.cellValue(v, a)
					var k Key
					switch {
					case val != nil:
						k = e.keyOf(val)
					case rep != v:
						k = Key{Root: rep}
					default:
						k = Key{Root: v}
					}
					e.keyDepth--
					return k
				}
			case *ssa.FreeVar:
				// captured cell: name by the free variable (one per closure instance)
				return Key{Root: a, Path: "*"}
			}
		}
	case *ssa.Index:
		k := e.keyOf(v.X)
		k.Path += "[" + e.idxString(v.Index) + "]"
		return k
	}
	return Key{Root: v}
}

func (e *Engine) idxString(v ssa.Value) string {
	if c, ok := v.(*ssa.Const); ok && c.Value != nil {
		return c.Value.ExactString()
	}
	t, off, ok := e.linOf(v)
	if ok {
		return fmt.Sprintf("%s%+d", t, off)
	}
	return v.Name()
}

func fieldName(t types.Type, i int) string {
	if p, ok := t.Underlying().(*types.Pointer); ok {
		t = p.Elem()
	}
	if s, ok := t.Underlying().(*types.Struct); ok && i < s.NumFields() {
		// the unexported fields of the lisp error are named by the part they play (their names are the author's
		// business): the one interface-typed field holds the thrown object, the one position pointer the cursor
		if n, isNamed := t.(*types.Named); isNamed && n.Obj().Name() == "LispError" && n.Obj().Pkg() != nil && strings.HasSuffix(n.Obj().Pkg().Path(), "/lisperror") && !s.Field(i).Exported() {
			ft := s.Field(i).Type()
			if types.IsInterface(ft) {
				return "err"
			}
			if pt, ok := ft.(*types.Pointer); ok {
				if pn, ok := pt.Elem().(*types.Named); ok && pn.Obj().Name() == "Position" {
					return "cursor"
				}
			}
		}
		return s.Field(i).Name()
	}
	return fmt.Sprintf("#%d", i)
}

// linOf normalises an integer value to term + constant.
func (e *Engine) linOf(v ssa.Value) (Term, int64, bool) {
	switch v := v.(type) {
	case *ssa.Const:
		if v.Value != nil && v.Value.Kind() == constant.Int {
			if i, ok := constant.Int64Val(v.Value); ok {
				return Term{}, i, true
			}
		}
		return Term{}, 0, false
	case *ssa.Call:
		if b, ok := v.Call.Value.(*ssa.Builtin); ok && b.Name() == "len" && len(v.Call.Args) == 1 {
			return Term{Kind: 1, K: e.keyOf(v.Call.Args[0])}, 0, true
		}
	case *ssa.BinOp:
		if v.Op == token.ADD || v.Op == token.SUB {
			tx, ox, okx := e.linOf(v.X)
			ty, oy, oky := e.linOf(v.Y)
			if okx && oky {
				if ty.Kind == 0 {
					if v.Op == token.ADD {
						return tx, ox + oy, true
					}
					return tx, ox - oy, true
				}
				if tx.Kind == 0 && v.Op == token.ADD {
					return ty, ox + oy, true
				}
			}
		}
	case *ssa.Convert:
		if isIntType(v.X.Type()) && isIntType(v.Type()) {
			return e.linOf(v.X)
		}
	}
	if !isIntType(v.Type()) {
		return Term{}, 0, false
	}
	return Term{Kind: 2, K: e.keyOf(v)}, 0, true
}

func isIntType(t types.Type) bool {
	b, ok := t.Underlying().(*types.Basic)
	return ok && b.Info()&types.IsInteger != 0
}

func isNilConst(v ssa.Value) bool {
	c, ok := v.(*ssa.Const)
	return ok && c.Value == nil
}

// feasiblePreds: predecessors of b, without edges that a constant branch condition rules out.
func feasiblePreds(b *ssa.BasicBlock) []*ssa.BasicBlock {
	var out []*ssa.BasicBlock
	for _, p := range b.Preds {
		if len(p.Instrs) > 0 {
			if iff, ok := p.Instrs[len(p.Instrs)-1].(*ssa.If); ok && p.Succs[0] != p.Succs[1] {
				if c, ok := iff.Cond.(*ssa.Const); ok && c.Value != nil && c.Value.Kind() == constant.Bool {
					taken := p.Succs[1]
					if constant.BoolVal(c.Value) {
						taken = p.Succs[0]
					}
					if taken != b {
						continue
					}
				}
			}
		}
		out = append(out, p)
	}
	return out
}

// edgeDominates: every path from the entry to b goes through the edge D -> D.Succs[i].
func edgeDominates(D *ssa.BasicBlock, i int, b *ssa.BasicBlock) bool {
	if len(D.Succs) != 2 || D.Succs[0] == D.Succs[1] {
		return false
	}
	s := D.Succs[i]
	if !s.Dominates(b) {
		return false
	}
	for _, p := range s.Preds {
		if p != D && !s.Dominates(p) {
			return false
		}
	}
	return true
}

// holding returns the facts that hold whenever control is in block b.
func (e *Engine) holding(b *ssa.BasicBlock) factSet {
	c := e.ctx(b.Parent())
	if fs, ok := c.hold[b]; ok {
		return fs
	}
	if c.busy[b] {
		return factSet{}
	}
	c.busy[b] = true
	fs := factSet{}
	for d := b.Idom(); d != nil; d = d.Idom() {
		if len(d.Instrs) == 0 {
			continue
		}
		iff, ok := d.Instrs[len(d.Instrs)-1].(*ssa.If)
		if !ok {
			continue
		}
		for i := 0; i < 2; i++ {
			if edgeDominates(d, i, b) {
				fs.add(e.condFacts(iff.Cond, i == 0).list()...)
			}
		}
	}
	// what every caller of an unexported function has established about its arguments holds on entry
	// (switched on per function by the audit, after the function's own guards did not suffice)
	if ef, ok := e.entryOn[b.Parent()]; ok {
		fs.add(ef.list()...)
	}
	// a block with exactly one feasible predecessor inherits the facts of that edge
	// (go/ssa keeps `if true` branches: their dead edges distort the dominator tree)
	if fp := feasiblePreds(b); len(fp) == 1 && fp[0] != b && !b.Dominates(fp[0]) {
		fs.add(e.onEdge(fp[0], b).list()...)
	}
	// phi refinement: a phi known to be non-nil did not arrive along an edge that carries the nil constant
	for _, f := range fs.list() {
		if (f.Kind != "nonnil" && f.Kind != "type") || f.K.Path != "" {
			continue
		}
		phi, ok := f.K.Root.(*ssa.Phi)
		if !ok || !phi.Block().Dominates(b) {
			continue
		}
		var acc factSet
		excluded := false
		for i, op := range phi.Edges {
			if isNilConst(op) {
				excluded = true
				continue
			}
			fe := e.onEdge(phi.Block().Preds[i], phi.Block())
			if acc == nil {
				acc = fe
			} else {
				acc = intersect(acc, fe)
			}
		}
		if excluded && acc != nil {
			for _, g := range acc.list() {
				if e.validAt(g, phi.Block()) {
					fs.add(g)
				}
			}
		}
	}
	delete(c.busy, b)
	c.hold[b] = fs
	return fs
}

// onEdge returns the facts that hold when control flows along pred -> succ.
func (e *Engine) onEdge(pred, succ *ssa.BasicBlock) factSet {
	fs := factSet{}
	fs.add(e.holding(pred).list()...)
	if len(pred.Instrs) > 0 {
		if iff, ok := pred.Instrs[len(pred.Instrs)-1].(*ssa.If); ok && pred.Succs[0] != pred.Succs[1] {
			for i := 0; i < 2; i++ {
				if pred.Succs[i] == succ {
					fs.add(e.condFacts(iff.Cond, i == 0).list()...)
				}
			}
		}
	}
	return fs
}

// condFacts: facts implied by boolean value v being equal to pol.
func (e *Engine) condFacts(v ssa.Value, pol bool) factSet {
	fs := factSet{}
	switch v := v.(type) {
	case *ssa.UnOp:
		if v.Op == token.NOT {
			return e.condFacts(v.X, !pol)
		}
	case *ssa.Extract:
		if v.Index == 1 {
			if ta, ok := v.Tuple.(*ssa.TypeAssert); ok && ta.CommaOk {
				k := e.keyOf(ta.X)
				if pol {
					fs.add(Fact{Kind: "type", K: k, T: ta.AssertedType})
					if !types.IsInterface(ta.AssertedType) || true {
						fs.add(Fact{Kind: "nonnil", K: k})
					}
				} else {
					fs.add(Fact{Kind: "nottype", K: k, T: ta.AssertedType})
				}
			}
		}
		// "value, ok := helper(x)": what the helper's ok result says about its arguments
		if c, ok := v.Tuple.(*ssa.Call); ok {
			if callee := c.Call.StaticCallee(); callee != nil && callee.Signature.Results().Len() > 1 {
				if sum := e.summaryAt(callee, v.Index); sum != nil {
					tmpl := sum.whenFalse
					if pol {
						tmpl = sum.whenTrue
					}
					for _, f := range tmpl {
						if g, ok := e.substFact(f, callee, c.Call.Args); ok {
							fs.add(g)
						}
					}
				}
			}
		}
	case *ssa.BinOp:
		e.binopFacts(v, pol, fs)
	case *ssa.Call:
		if callee := v.Call.StaticCallee(); callee != nil {
			if pol {
				// strings.HasPrefix(s, "const") => len(s) >= len(const)
				if callee.Pkg != nil && callee.Pkg.Pkg.Path() == "strings" && (callee.Name() == "HasPrefix" || callee.Name() == "HasSuffix") && len(v.Call.Args) == 2 {
					if c, ok := v.Call.Args[1].(*ssa.Const); ok && c.Value != nil && c.Value.Kind() == constant.String {
						n := int64(len(constant.StringVal(c.Value)))
						fs.add(Fact{Kind: "le", A: Term{}, B: Term{Kind: 1, K: e.keyOf(v.Call.Args[0])}, C: -n})
					}
				}
			}
			if sum := e.summary(callee); sum != nil {
				var tmpl []Fact
				if pol {
					tmpl = sum.whenTrue
				} else {
					tmpl = sum.whenFalse
				}
				for _, f := range tmpl {
					if g, ok := e.substFact(f, callee, v.Call.Args); ok {
						fs.add(g)
					}
				}
			}
		}
	case *ssa.Phi:
		// boolean phi produced by && and ||: the value equals pol only along
		// incoming edges whose operand can equal pol
		if e.condBusy == nil {
			e.condBusy = map[*ssa.Phi]bool{}
		}
		if e.condBusy[v] {
			return fs // a loop-carried boolean that refers to itself: nothing to add
		}
		e.condBusy[v] = true
		defer delete(e.condBusy, v)
		var acc factSet
		for i, op := range v.Edges {
			if c, ok := op.(*ssa.Const); ok && c.Value != nil && c.Value.Kind() == constant.Bool {
				if constant.BoolVal(c.Value) != pol {
					continue
				}
			}
			if op == ssa.Value(v) {
				continue
			}
			fe := e.onEdge(v.Block().Preds[i], v.Block())
			fe.add(e.condFacts(op, pol).list()...)
			if acc == nil {
				acc = fe
			} else {
				acc = intersect(acc, fe)
			}
		}
		if acc != nil {
			out := factSet{}
			for _, g := range acc.list() {
				if e.validAt(g, v.Block()) {
					out.add(g)
				}
			}
			return out
		}
	}
	return fs
}

// validAt: every value a fact speaks about is defined in a block that dominates
// blk (or is a parameter / captured variable / global), so the fact cannot refer
// to an earlier loop iteration's instance of the value.
func (e *Engine) validAt(f Fact, blk *ssa.BasicBlock) bool {
	okKey := func(k Key) bool {
		if k.Root == nil {
			return true
		}
		switch r := k.Root.(type) {
		case *ssa.Parameter, *ssa.FreeVar, *ssa.Const, *ssa.Global, *ssa.Function:
			return true
		case ssa.Instruction:
			if r.Block() == nil {
				return false
			}
			if r.Block() == blk {
				_, isPhi := k.Root.(*ssa.Phi)
				return isPhi
			}
			return r.Block().Dominates(blk)
		}
		return false
	}
	okTerm := func(t Term) bool { return t.Kind == 0 || okKey(t.K) }
	switch f.Kind {
	case "type", "nottype", "nonnil", "nil":
		return okKey(f.K)
	case "even":
		return okTerm(f.A)
	}
	return okTerm(f.A) && okTerm(f.B)
}

// forwarded: the value last stored to local cell a before load ld, when that
// store is in the same block and nothing in between can write the cell.
func (e *Engine) forwarded(ld *ssa.UnOp, a *ssa.Alloc) ssa.Value {
	b := ld.Block()
	idx := -1
	for i, in := range b.Instrs {
		if in == ssa.Instruction(ld) {
			idx = i
			break
		}
	}
	for i := idx - 1; i >= 0; i-- {
		switch in := b.Instrs[i].(type) {
		case *ssa.Store:
			if in.Addr == ssa.Value(a) {
				return in.Val
			}
		case *ssa.Call, *ssa.Defer, *ssa.Go, *ssa.RunDefers:
			// a call may run a closure that captured the cell
			if e.cellCaptured(a) {
				return nil
			}
		}
	}
	return nil
}

func (e *Engine) cellCaptured(a *ssa.Alloc) bool {
	for _, ref := range *a.Referrers() {
		if _, ok := ref.(*ssa.MakeClosure); ok {
			return true
		}
	}
	return false
}

// ---------------------------------------------------------------------------
// Accessor summaries: small pure functions whose first result is an access path
// of a parameter under a condition on that parameter's dynamic type
// (types.GetSlice: seq.(List).Val when seq is a List).

type accessorCase struct {
	facts []Fact // parameter-rooted facts that hold on this return
	param int
	path  string
	isNil bool
}

func (e *Engine) accessorCases(fn *ssa.Function) []accessorCase {
	if fn.Blocks == nil || !strings.HasPrefix(fnPkgPath(fn), modPath) || len(fn.Blocks) > 12 {
		return nil
	}
	var out []accessorCase
	for _, b := range fn.Blocks {
		for _, in := range b.Instrs {
			switch in := in.(type) {
			case *ssa.Store:
				if _, local := in.Addr.(*ssa.Alloc); !local {
					return nil
				}
			case *ssa.MapUpdate, *ssa.Go, *ssa.Defer, *ssa.Send:
				return nil
			}
		}
		if len(b.Instrs) == 0 {
			continue
		}
		ret, ok := b.Instrs[len(b.Instrs)-1].(*ssa.Return)
		if !ok {
			continue
		}
		if len(ret.Results) == 0 {
			return nil
		}
		var pf []Fact
		for _, f := range e.holding(b).list() {
			if e.paramRooted(f, fn) {
				pf = append(pf, f)
			}
		}
		r0 := ret.Results[0]
		if isNilConst(r0) {
			out = append(out, accessorCase{facts: pf, isNil: true})
			continue
		}
		k := e.keyOf(r0)
		pi := -1
		for i, p := range fn.Params {
			if k.Root == ssa.Value(p) {
				pi = i
			}
		}
		if pi < 0 || k.Path == "" {
			return nil
		}
		out = append(out, accessorCase{facts: pf, param: pi, path: k.Path})
	}
	return out
}

var accBusy = map[*ssa.Call]bool{}

func (e *Engine) accessorKey(c *ssa.Call) (Key, bool) {
	callee := c.Call.StaticCallee()
	if callee == nil || accBusy[c] {
		return Key{}, false
	}
	if e.accCache == nil {
		e.accCache = map[*ssa.Function][]accessorCase{}
	}
	cases, ok := e.accCache[callee]
	if !ok {
		e.accCache[callee] = nil // recursion guard
		cases = e.accessorCases(callee)
		e.accCache[callee] = cases
	}
	if len(cases) == 0 {
		return Key{}, false
	}
	accBusy[c] = true
	defer delete(accBusy, c)
	known := e.holding(c.Block())
	var feasible []accessorCase
	for _, cs := range cases {
		contradicted := false
		for _, f := range cs.facts {
			g, ok := e.substFact(f, callee, c.Call.Args)
			if !ok {
				continue
			}
			if e.contradicts(g, known) {
				contradicted = true
				break
			}
		}
		if !contradicted {
			feasible = append(feasible, cs)
		}
	}
	if len(feasible) != 1 || feasible[0].isNil {
		return Key{}, false
	}
	k := e.keyOf(c.Call.Args[feasible[0].param])
	k.Path += feasible[0].path
	return k, true
}

func (e *Engine) contradicts(g Fact, known factSet) bool {
	for _, f := range known {
		if f.K.String() != g.K.String() {
			continue
		}
		switch {
		case g.Kind == "type" && f.Kind == "type":
			if !types.IsInterface(g.T) && !types.IsInterface(f.T) && !types.Identical(g.T, f.T) {
				return true
			}
		case g.Kind == "type" && f.Kind == "nottype", g.Kind == "nottype" && f.Kind == "type":
			if types.Identical(g.T, f.T) {
				return true
			}
		case g.Kind == "nil" && (f.Kind == "nonnil" || f.Kind == "type"):
			return true
		case g.Kind == "nonnil" && f.Kind == "nil":
			return true
		}
	}
	return false
}

func (e *Engine) binopFacts(v *ssa.BinOp, pol bool, fs factSet) {
	op := v.Op
	if !pol {
		switch op {
		case token.EQL:
			op = token.NEQ
		case token.NEQ:
			op = token.EQL
		case token.LSS:
			op = token.GEQ
		case token.LEQ:
			op = token.GTR
		case token.GTR:
			op = token.LEQ
		case token.GEQ:
			op = token.LSS
		default:
			return
		}
	}
	// nil comparisons
	if isNilConst(v.Y) || isNilConst(v.X) {
		x := v.X
		if isNilConst(v.X) {
			x = v.Y
		}
		switch op {
		case token.EQL:
			fs.add(Fact{Kind: "nil", K: e.keyOf(x)})
			// err == nil where err is the error result of a module call: the callee's no-error facts hold
			if ex, ok := x.(*ssa.Extract); ok {
				if c, ok := ex.Tuple.(*ssa.Call); ok {
					if callee := c.Call.StaticCallee(); callee != nil && hasErrorResult(callee) == ex.Index {
						for _, f := range e.errSummary(callee) {
							if g, ok := e.substFact(f, callee, c.Call.Args); ok {
								fs.add(g)
							}
						}
						// ... and the pointer results the callee never leaves nil when it reports success
						for _, j := range e.nonNilOnSuccess(callee) {
							if other := extractOf(c, j); other != nil {
								fs.add(Fact{Kind: "nonnil", K: e.keyOf(other)})
							}
						}
					}
				}
			}
			// ... and the same for a function whose only result is the error
			if c, ok := x.(*ssa.Call); ok {
				if callee := c.Call.StaticCallee(); callee != nil && callee.Signature.Results().Len() == 1 && hasErrorResult(callee) == 0 {
					for _, f := range e.errSummary(callee) {
						if g, ok := e.substFact(f, callee, c.Call.Args); ok {
							fs.add(g)
						}
					}
				}
			}
		case token.NEQ:
			fs.add(Fact{Kind: "nonnil", K: e.keyOf(x)})
		}
		return
	}
	// string comparisons with a constant: result of a function with a string summary
	if b, ok := v.X.Type().Underlying().(*types.Basic); ok && b.Info()&types.IsString != 0 {
		x, y := v.X, v.Y
		if _, ok := x.(*ssa.Const); ok {
			x, y = y, x
		}
		if c, ok := y.(*ssa.Const); ok && c.Value != nil && c.Value.Kind() == constant.String {
			s := constant.StringVal(c.Value)
			if s == "" {
				lt := Term{Kind: 1, K: e.keyOf(x)}
				if op == token.EQL {
					fs.add(Fact{Kind: "le", A: lt, B: Term{}, C: 0})
				} else if op == token.NEQ {
					fs.add(Fact{Kind: "le", A: Term{}, B: lt, C: -1})
				}
			}
			if (op == token.EQL && s != "") || (op == token.NEQ && s == "") {
				if call, ok := x.(*ssa.Call); ok {
					if callee := call.Call.StaticCallee(); callee != nil {
						if sum := e.summary(callee); sum != nil {
							for _, f := range sum.whenNonEmpty {
								if g, ok := e.substFact(f, callee, call.Call.Args); ok {
									fs.add(g)
								}
							}
						}
					}
				}
				// x == "nonempty" => len(x) == len(s) (only for EQL)
				if op == token.EQL {
					n := int64(len(s))
					lt := Term{Kind: 1, K: e.keyOf(x)}
					fs.add(Fact{Kind: "le", A: lt, B: Term{}, C: n}, Fact{Kind: "le", A: Term{}, B: lt, C: -n})
				}
			}
		}
		return
	}
	if !isIntType(v.X.Type()) {
		return
	}
	// parity: len(x)%2 ==/!= c
	if rem, ok := v.X.(*ssa.BinOp); ok && rem.Op == token.REM {
		if m, ok := rem.Y.(*ssa.Const); ok && m.Value != nil && m.Int64() == 2 {
			if c, ok := v.Y.(*ssa.Const); ok && c.Value != nil {
				t, off, ok2 := e.linOf(rem.X)
				if ok2 && off == 0 {
					cv := c.Int64()
					// (x%2 == 0) or (x%2 != 1) or (x%2 != -1 && ...): x is even when compared ==0;
					// for non-negative terms (len) also != 1
					if (op == token.EQL && cv == 0) || (op == token.NEQ && cv == 1 && t.Kind == 1) {
						fs.add(Fact{Kind: "even", A: t})
					}
				}
			}
		}
	}
	tx, ox, okx := e.linOf(v.X)
	ty, oy, oky := e.linOf(v.Y)
	if !okx || !oky {
		return
	}
	// tx + ox  op  ty + oy
	switch op {
	case token.LSS: // tx - ty <= oy - ox - 1
		fs.add(Fact{Kind: "le", A: tx, B: ty, C: oy - ox - 1})
	case token.LEQ:
		fs.add(Fact{Kind: "le", A: tx, B: ty, C: oy - ox})
	case token.GTR: // ty - tx <= ox - oy - 1
		fs.add(Fact{Kind: "le", A: ty, B: tx, C: ox - oy - 1})
	case token.GEQ:
		fs.add(Fact{Kind: "le", A: ty, B: tx, C: ox - oy})
	case token.EQL:
		fs.add(Fact{Kind: "le", A: tx, B: ty, C: oy - ox}, Fact{Kind: "le", A: ty, B: tx, C: ox - oy})
	case token.NEQ:
		fs.add(Fact{Kind: "ne", A: tx, B: ty, C: oy - ox})
	}
}

// ---------------------------------------------------------------------------
// Predicate summaries: facts about the parameters implied by the result.

type predSummary struct {
	whenTrue     []Fact // bool result true
	whenFalse    []Fact // bool result false
	whenNonEmpty []Fact // string result != ""
}

// errSummary: for a module function whose last result is an error, the facts about its parameters
// that hold on every return whose error may be nil (GetSlice: err == nil => argument non-nil).
func (e *Engine) errSummary(fn *ssa.Function) []Fact {
	if e.errSums == nil {
		e.errSums = map[*ssa.Function][]Fact{}
	}
	if fs, ok := e.errSums[fn]; ok {
		return fs
	}
	e.errSums[fn] = nil
	ei := hasErrorResult(fn)
	if fn.Blocks == nil || ei < 0 || !strings.HasPrefix(fnPkgPath(fn), modPath) {
		return nil
	}
	var acc factSet
	for _, b := range fn.Blocks {
		if len(b.Instrs) == 0 || b == fn.Recover {
			continue
		}
		ret, ok := b.Instrs[len(b.Instrs)-1].(*ssa.Return)
		if !ok || ei >= len(ret.Results) {
			continue
		}
		ev := ret.Results[ei]
		if !isNilConst(ev) {
			if _, isCall := ev.(*ssa.Call); isCall || e.nonNilFact(ev, b) {
				continue
			}
			if _, isMI := ev.(*ssa.MakeInterface); isMI {
				continue
			}
			e.errSums[fn] = nil
			return nil
		}
		hold := e.holding(b)
		if acc == nil {
			acc = factSet{}
			acc.add(hold.list()...)
		} else {
			acc = intersect(acc, hold)
		}
	}
	var out []Fact
	for _, f := range acc.list() {
		if e.paramRooted(f, fn) {
			out = append(out, f)
		}
	}
	e.errSums[fn] = out
	return out
}

func (e *Engine) summary(fn *ssa.Function) *predSummary {
	if fn.Signature.Results().Len() != 1 {
		return nil
	}
	return e.summaryAt(fn, 0)
}

// okSummaries: summaries of the boolean results of functions with several results ("value, ok"), per result index
type sumKey struct {
	fn  *ssa.Function
	idx int
}

// summaryAt: what is known about the parameters when result idx of fn (a boolean, or for single-result
// functions a string) is true / false / non-empty.
func (e *Engine) summaryAt(fn *ssa.Function, idx int) *predSummary {
	if idx != 0 || fn.Signature.Results().Len() != 1 {
		if e.okSums == nil {
			e.okSums = map[sumKey]*predSummary{}
			e.okBusy = map[sumKey]bool{}
		}
		k := sumKey{fn, idx}
		if s, ok := e.okSums[k]; ok {
			return s
		}
		res := fn.Signature.Results()
		if e.okBusy[k] || fn.Blocks == nil || !strings.HasPrefix(fnPkgPath(fn), modPath) || idx >= res.Len() || !isBasic(res.At(idx).Type(), types.Bool) {
			return nil
		}
		e.okBusy[k] = true
		defer delete(e.okBusy, k)
		var accT, accF factSet
		merge := func(acc *factSet, fs factSet) {
			if *acc == nil {
				cp := factSet{}
				cp.add(fs.list()...)
				*acc = cp
			} else {
				*acc = intersect(*acc, fs)
			}
		}
		var visit func(v ssa.Value, at factSet, depth int)
		visit = func(v ssa.Value, at factSet, depth int) {
			if phi, ok := v.(*ssa.Phi); ok && depth < 4 {
				for i, op := range phi.Edges {
					visit(op, e.onEdge(phi.Block().Preds[i], phi.Block()), depth+1)
				}
				return
			}
			if c, ok := v.(*ssa.Const); ok && c.Value != nil && c.Value.Kind() == constant.Bool {
				if constant.BoolVal(c.Value) {
					merge(&accT, at)
				} else {
					merge(&accF, at)
				}
				return
			}
			ft := factSet{}
			ft.add(at.list()...)
			ft.add(e.condFacts(v, true).list()...)
			merge(&accT, ft)
			ff := factSet{}
			ff.add(at.list()...)
			ff.add(e.condFacts(v, false).list()...)
			merge(&accF, ff)
		}
		for _, b := range fn.Blocks {
			if len(b.Instrs) == 0 || b == fn.Recover {
				continue
			}
			ret, ok := b.Instrs[len(b.Instrs)-1].(*ssa.Return)
			if !ok || idx >= len(ret.Results) {
				continue
			}
			visit(ret.Results[idx], e.holding(b), 0)
		}
		keep := func(acc factSet) []Fact {
			var out []Fact
			for _, f := range acc.list() {
				if e.paramRooted(f, fn) {
					out = append(out, f)
				}
			}
			return out
		}
		sum := &predSummary{whenTrue: keep(accT), whenFalse: keep(accF)}
		e.okSums[k] = sum
		return sum
	}
	if s, ok := e.sums[fn]; ok {
		return s
	}
	if e.sumBusy[fn] || fn.Blocks == nil {
		return nil
	}
	if !strings.HasPrefix(fnPkgPath(fn), modPath) {
		e.sums[fn] = nil
		return nil
	}
	res := fn.Signature.Results()
	if res.Len() != 1 {
		e.sums[fn] = nil
		return nil
	}
	bt, ok := res.At(0).Type().Underlying().(*types.Basic)
	if !ok || (bt.Kind() != types.Bool && bt.Info()&types.IsString == 0) {
		e.sums[fn] = nil
		return nil
	}
	e.sumBusy[fn] = true
	defer delete(e.sumBusy, fn)
	sum := &predSummary{}
	isBool := bt.Kind() == types.Bool
	var accT, accF, accS factSet
	merge := func(acc *factSet, fs factSet) {
		if *acc == nil {
			cp := factSet{}
			cp.add(fs.list()...)
			*acc = cp
		} else {
			*acc = intersect(*acc, fs)
		}
	}
	var visit func(v ssa.Value, at factSet, depth int)
	visit = func(v ssa.Value, at factSet, depth int) {
		if phi, ok := v.(*ssa.Phi); ok && depth < 4 {
			for i, op := range phi.Edges {
				fe := e.onEdge(phi.Block().Preds[i], phi.Block())
				visit(op, fe, depth+1)
			}
			return
		}
		if isBool {
			if c, ok := v.(*ssa.Const); ok && c.Value != nil && c.Value.Kind() == constant.Bool {
				if constant.BoolVal(c.Value) {
					merge(&accT, at)
				} else {
					merge(&accF, at)
				}
				return
			}
			ft := factSet{}
			ft.add(at.list()...)
			ft.add(e.condFacts(v, true).list()...)
			merge(&accT, ft)
			ff := factSet{}
			ff.add(at.list()...)
			ff.add(e.condFacts(v, false).list()...)
			merge(&accF, ff)
			return
		}
		if c, ok := v.(*ssa.Const); ok && c.Value != nil && c.Value.Kind() == constant.String && constant.StringVal(c.Value) == "" {
			return
		}
		merge(&accS, at)
	}
	for _, b := range fn.Blocks {
		if len(b.Instrs) == 0 {
			continue
		}
		ret, ok := b.Instrs[len(b.Instrs)-1].(*ssa.Return)
		if !ok || len(ret.Results) != 1 {
			continue
		}
		visit(ret.Results[0], e.holding(b), 0)
	}
	keep := func(acc factSet) []Fact {
		var out []Fact
		for _, f := range acc.list() {
			if e.paramRooted(f, fn) {
				out = append(out, f)
			}
		}
		return out
	}
	sum.whenTrue, sum.whenFalse, sum.whenNonEmpty = keep(accT), keep(accF), keep(accS)
	e.sums[fn] = sum
	return sum
}

func isParam(v ssa.Value, fn *ssa.Function) bool {
	p, ok := v.(*ssa.Parameter)
	return ok && p.Parent() == fn
}

func (e *Engine) paramRooted(f Fact, fn *ssa.Function) bool {
	okKey := func(k Key) bool { return k.Root != nil && isParam(k.Root, fn) }
	okTerm := func(t Term) bool { return t.Kind == 0 || okKey(t.K) }
	switch f.Kind {
	case "type", "nottype", "nonnil", "nil":
		return okKey(f.K)
	case "even":
		return okTerm(f.A)
	}
	return okTerm(f.A) && okTerm(f.B)
}

func (e *Engine) substFact(f Fact, callee *ssa.Function, args []ssa.Value) (Fact, bool) {
	sk := func(k Key) (Key, bool) {
		for i, p := range callee.Params {
			if k.Root == ssa.Value(p) && i < len(args) {
				nk := e.keyOf(args[i])
				nk.Path += k.Path
				return nk, true
			}
		}
		return k, false
	}
	st := func(t Term) (Term, bool) {
		if t.Kind == 0 {
			return t, true
		}
		k, ok := sk(t.K)
		return Term{Kind: t.Kind, K: k}, ok
	}
	var ok, ok2 bool
	switch f.Kind {
	case "type", "nottype", "nonnil", "nil":
		f.K, ok = sk(f.K)
		return f, ok
	case "even":
		f.A, ok = st(f.A)
		return f, ok
	}
	f.A, ok = st(f.A)
	f.B, ok2 = st(f.B)
	return f, ok && ok2
}

// ---------------------------------------------------------------------------
// Queries

// hasType: is the dynamic type of interface value x known to be (assignable to) T in block b?
func (e *Engine) hasType(x ssa.Value, T types.Type, b *ssa.BasicBlock) (bool, string) {
	if mi, ok := stripIface(x).(*ssa.MakeInterface); ok {
		if types.Identical(mi.X.Type(), T) || (types.IsInterface(T) && types.Implements(mi.X.Type(), T.Underlying().(*types.Interface))) {
			return true, "value was boxed from " + mi.X.Type().String()
		}
	}
	k := e.keyOf(x)
	for _, f := range e.holding(b).list() {
		if f.Kind == "type" && f.K.String() == k.String() {
			if types.Identical(f.T, T) {
				return true, "dominated by " + f.String()
			}
			if types.IsInterface(T) && !types.IsInterface(f.T) && types.Implements(f.T, T.Underlying().(*types.Interface)) {
				return true, "dominated by " + f.String()
			}
		}
	}
	// possible-dynamic-types analysis: the value only ever holds T (nil excluded by a guard)
	if ts := e.typeSetOf(x, b, map[ssa.Value]bool{}, 0); !ts.unknown && len(ts.ts) == 1 && types.Identical(ts.ts[0], T) {
		if !ts.hasNil || e.nonNilFact(x, b) {
			return true, "every producer of the value yields " + ts.String()
		}
	}
	// a phi all of whose operands have the type on their incoming edge
	if phi, ok := x.(*ssa.Phi); ok {
		all := len(phi.Edges) > 0
		for i, op := range phi.Edges {
			if ok, _ := e.hasTypeOnEdge(op, T, phi.Block().Preds[i], phi.Block()); !ok {
				all = false
				break
			}
		}
		if all {
			return true, "every incoming value has the type"
		}
	}
	return false, ""
}

func (e *Engine) hasTypeOnEdge(x ssa.Value, T types.Type, pred, succ *ssa.BasicBlock) (bool, string) {
	if mi, ok := stripIface(x).(*ssa.MakeInterface); ok && types.Identical(mi.X.Type(), T) {
		return true, "boxed"
	}
	k := e.keyOf(x)
	for _, f := range e.onEdge(pred, succ).list() {
		if f.Kind == "type" && f.K.String() == k.String() && types.Identical(f.T, T) {
			return true, f.String()
		}
	}
	return false, ""
}

func stripIface(v ssa.Value) ssa.Value {
	for {
		switch x := v.(type) {
		case *ssa.ChangeInterface:
			v = x.X
		case *ssa.ChangeType:
			v = x.X
		default:
			return v
		}
	}
}

// notType: is x known NOT to have dynamic type T in block b?
func (e *Engine) notType(x ssa.Value, T types.Type, b *ssa.BasicBlock) bool {
	k := e.keyOf(x)
	for _, f := range e.holding(b).list() {
		if f.Kind == "nottype" && f.K.String() == k.String() && types.Identical(f.T, T) {
			return true
		}
		if f.Kind == "type" && f.K.String() == k.String() && !types.IsInterface(f.T) && !types.Identical(f.T, T) && !types.IsInterface(T) {
			return true
		}
	}
	return false
}

// constraint graph for difference constraints
type dcGraph struct {
	nodes map[string]int
	edges [][3]int64 // from, to, weight : to - from <= w
	ne    []Fact
	even  map[string]bool
}

func (e *Engine) buildGraph(fs factSet, extra []Fact) *dcGraph {
	g := &dcGraph{nodes: map[string]int{"0": 0}, even: map[string]bool{}}
	id := func(t Term) int64 {
		s := t.String()
		if i, ok := g.nodes[s]; ok {
			return int64(i)
		}
		g.nodes[s] = len(g.nodes)
		if t.Kind == 1 { // len >= 0  : 0 - len <= 0
			g.edges = append(g.edges, [3]int64{int64(g.nodes[s]), 0, 0})
		}
		return int64(g.nodes[s])
	}
	all := append(fs.list(), extra...)
	for _, f := range all {
		switch f.Kind {
		case "le": // A - B <= C : edge B -> A weight C
			g.edges = append(g.edges, [3]int64{id(f.B), id(f.A), f.C})
		case "ne":
			id(f.A)
			id(f.B)
			g.ne = append(g.ne, f)
		case "even":
			id(f.A)
			g.even[f.A.String()] = true
		}
	}
	return g
}

const inf = int64(1) << 40

// bound returns the least c with a - b <= c derivable (inf if none).
func (g *dcGraph) bound(a, b Term) int64 {
	ia, oka := g.nodes[a.String()]
	ib, okb := g.nodes[b.String()]
	if a.Kind == 0 {
		ia, oka = 0, true
	}
	if b.Kind == 0 {
		ib, okb = 0, true
	}
	if !oka || !okb {
		if a.String() == b.String() {
			return 0
		}
		return inf
	}
	for iter := 0; iter < 6; iter++ {
		n := len(g.nodes)
		dist := make([]int64, n)
		for i := range dist {
			dist[i] = inf
		}
		dist[ib] = 0
		for k := 0; k < n; k++ {
			changed := false
			for _, ed := range g.edges {
				if dist[ed[0]] < inf && dist[ed[0]]+ed[2] < dist[ed[1]] {
					dist[ed[1]] = dist[ed[0]] + ed[2]
					changed = true
				}
			}
			if !changed {
				break
			}
		}
		// tighten with disequalities and parity, then iterate
		tightened := false
		name := make([]string, n)
		for s, i := range g.nodes {
			name[i] = s
		}
		for _, f := range g.ne {
			// A - B != C ; if A - B <= C known exactly at C from above and ... tighten upper bound
			up := g.rawBound(f.A, f.B)
			if up == f.C {
				g.edges = append(g.edges, [3]int64{int64(g.nodes[f.B.String()]), int64(g.nodes[f.A.String()]), f.C - 1})
				tightened = true
			}
			lo := g.rawBound(f.B, f.A) // B - A <= lo  => A - B >= -lo
			if lo < inf && -lo == f.C {
				g.edges = append(g.edges, [3]int64{int64(g.nodes[f.A.String()]), int64(g.nodes[f.B.String()]), lo - 1})
				tightened = true
			}
		}
		// parity: even(A) and even(B) and A - B <= odd  => A - B <= odd-1
		for sa := range g.even {
			for sb := range g.even {
				if sa == sb {
					continue
				}
				ta, tb := g.termByName(sa), g.termByName(sb)
				up := g.rawBound(ta, tb)
				if up < inf && up > -inf && (up%2 != 0) {
					g.edges = append(g.edges, [3]int64{int64(g.nodes[sb]), int64(g.nodes[sa]), up - 1})
					tightened = true
				}
			}
		}
		if !tightened {
			return dist[ia]
		}
	}
	return g.rawBound(a, b)
}

func (g *dcGraph) termByName(s string) Term {
	// only used with names already in the graph; reconstruct a term whose String() is s
	return Term{Kind: 3, K: Key{Glob: s}}
}

func (g *dcGraph) rawBound(a, b Term) int64 {
	lookup := func(t Term) (int, bool) {
		if t.Kind == 0 {
			return 0, true
		}
		if t.Kind == 3 {
			i, ok := g.nodes[t.K.Glob]
			return i, ok
		}
		i, ok := g.nodes[t.String()]
		return i, ok
	}
	ia, oka := lookup(a)
	ib, okb := lookup(b)
	if !oka || !okb {
		return inf
	}
	n := len(g.nodes)
	dist := make([]int64, n)
	for i := range dist {
		dist[i] = inf
	}
	dist[ib] = 0
	for k := 0; k < n; k++ {
		changed := false
		for _, ed := range g.edges {
			if dist[ed[0]] < inf && dist[ed[0]]+ed[2] < dist[ed[1]] {
				dist[ed[1]] = dist[ed[0]] + ed[2]
				changed = true
			}
		}
		if !changed {
			break
		}
	}
	return dist[ia]
}

// phiFacts: induction lemmas for loop counters reachable from value v (looks through +/- const).
func (e *Engine) phiFacts(v ssa.Value, seen map[ssa.Value]bool, out *[]Fact) {
	if seen[v] {
		return
	}
	seen[v] = true
	switch x := v.(type) {
	case *ssa.Call:
		// strings.Index/LastIndex(s, sep): -1 <= result <= len(s) - len(sep)
		if callee := x.Call.StaticCallee(); callee != nil && callee.Pkg != nil && callee.Pkg.Pkg.Path() == "strings" && callee.Signature.Recv() == nil && len(x.Call.Args) == 2 {
			switch callee.Name() {
			case "Index", "LastIndex", "IndexByte", "LastIndexByte", "IndexRune", "IndexAny", "LastIndexAny":
				self := Term{Kind: 2, K: e.keyOf(x)}
				lt := Term{Kind: 1, K: e.keyOf(x.Call.Args[0])}
				n := int64(1)
				if c, ok := x.Call.Args[1].(*ssa.Const); ok && c.Value != nil && c.Value.Kind() == constant.String {
					n = int64(len(constant.StringVal(c.Value)))
				}
				*out = append(*out, Fact{Kind: "le", A: self, B: lt, C: -n}, Fact{Kind: "le", A: Term{}, B: self, C: 1})
			}
		}
	case *ssa.BinOp:
		if x.Op == token.ADD || x.Op == token.SUB {
			e.phiFacts(x.X, seen, out)
			e.phiFacts(x.Y, seen, out)
		}
	case *ssa.Phi:
		if !isIntType(x.Type()) {
			return
		}
		self := Term{Kind: 2, K: e.keyOf(x)}
		allUp, allDown, evenStep := true, true, true
		type inc struct {
			t   Term
			off int64
		}
		var others []inc
		for _, op := range x.Edges {
			t, off, ok := e.linOf(op)
			if !ok {
				return
			}
			if t.Kind == 2 && t.K.String() == self.K.String() {
				if off < 0 {
					allUp = false
				}
				if off > 0 {
					allDown = false
				}
				if off%2 != 0 {
					evenStep = false
				}
				continue
			}
			others = append(others, inc{t, off})
		}
		if len(others) == 0 {
			return
		}
		if allUp { // self >= min(others)
			if len(others) == 1 {
				o := others[0] // o.t + o.off <= self  =>  o.t - self <= -o.off
				*out = append(*out, Fact{Kind: "le", A: o.t, B: self, C: -o.off})
			} else {
				allConst := true
				min := int64(inf)
				for _, o := range others {
					if o.t.Kind != 0 {
						allConst = false
					} else if o.off < min {
						min = o.off
					}
				}
				if allConst {
					*out = append(*out, Fact{Kind: "le", A: Term{}, B: self, C: -min})
				}
			}
		}
		if allDown && len(others) == 1 { // self <= other
			o := others[0]
			*out = append(*out, Fact{Kind: "le", A: self, B: o.t, C: o.off})
		}
		// inductive invariant  self <= len(K): the counter starts at a constant <= 0, is only
		// incremented by one, and every incrementing edge carries  self != len(K)
		if allUp && len(others) == 1 && others[0].t.Kind == 0 && others[0].off <= 0 {
			var cand map[string]Term
			okAll := true
			for i, op := range x.Edges {
				t, off, _ := e.linOf(op)
				if !(t.Kind == 2 && t.K.String() == self.K.String()) {
					continue
				}
				if off != 1 {
					okAll = false
					break
				}
				here := map[string]Term{}
				for _, f := range e.onEdge(x.Block().Preds[i], x.Block()).list() {
					if f.Kind != "ne" || f.C != 0 {
						continue
					}
					if f.A.String() == self.String() && f.B.Kind == 1 {
						here[f.B.String()] = f.B
					}
					if f.B.String() == self.String() && f.A.Kind == 1 {
						here[f.A.String()] = f.A
					}
				}
				if cand == nil {
					cand = here
				} else {
					for k := range cand {
						if _, ok := here[k]; !ok {
							delete(cand, k)
						}
					}
				}
			}
			if okAll {
				for _, lt := range cand {
					if e.validAt(Fact{Kind: "even", A: lt}, x.Block()) {
						*out = append(*out, Fact{Kind: "le", A: self, B: lt, C: 0})
					}
				}
			}
		}
		if evenStep {
			allEven := true
			for _, o := range others {
				if o.t.Kind != 0 || o.off%2 != 0 {
					allEven = false
				}
			}
			if allEven {
				*out = append(*out, Fact{Kind: "even", A: self})
			}
		}
	}
}

// proveLE: is  x + dx <= y + dy  provable in block b ?
func (e *Engine) proveLE(x ssa.Value, dx int64, yt Term, dy int64, b *ssa.BasicBlock, vals ...ssa.Value) (bool, string) {
	tx, ox, ok := e.linOf(x)
	if !ok {
		return false, "not linear"
	}
	var extra []Fact
	seen := map[ssa.Value]bool{}
	e.phiFacts(x, seen, &extra)
	for _, v := range vals {
		e.phiFacts(v, seen, &extra)
	}
	// definitional facts for integer values mentioned in holding facts are already linearised by linOf
	g := e.buildGraph(e.holding(b), extra)
	// also make sure both terms are nodes
	need := yt
	bd := g.boundWith(tx, need)
	// tx + ox + dx <= yt + dy  <=>  tx - yt <= dy - ox - dx
	if bd <= dy-ox-dx {
		return true, fmt.Sprintf("%s - %s <= %d derivable", tx, yt, bd)
	}
	return false, fmt.Sprintf("best bound %s - %s <= %s, need <= %d", tx, yt, fmtInf(bd), dy-ox-dx)
}

func fmtInf(v int64) string {
	if v >= inf {
		return "+inf"
	}
	return fmt.Sprint(v)
}

func (g *dcGraph) boundWith(a, b Term) int64 {
	for _, t := range []Term{a, b} {
		if t.Kind == 0 {
			continue
		}
		s := t.String()
		if _, ok := g.nodes[s]; !ok {
			g.nodes[s] = len(g.nodes)
			if t.Kind == 1 {
				g.edges = append(g.edges, [3]int64{int64(g.nodes[s]), 0, 0})
			}
		}
	}
	return g.bound(a, b)
}

// nonNil: is pointer/interface value v known to be non-nil in block b?
func (e *Engine) nonNilFact(v ssa.Value, b *ssa.BasicBlock) bool {
	k := e.keyOf(v).String()
	for _, f := range e.holding(b).list() {
		if (f.Kind == "nonnil" || f.Kind == "type") && f.K.String() == k {
			return true
		}
	}
	return false
}

// nonNegField: every store to the struct field in the module writes a
// non-negative constant or the field's own value plus a positive constant, so
// the field is >= 0 in every reachable state (tokenReader.position).
func (e *Engine) nonNegField(fv *types.Var) bool {
	if e.nnField == nil {
		e.nnField = map[*types.Var]bool{}
		bad := map[*types.Var]bool{}
		seen := map[*types.Var]bool{}
		for _, fn := range e.w.Funcs {
			for _, b := range fn.Blocks {
				for _, in := range b.Instrs {
					st, ok := in.(*ssa.Store)
					if !ok {
						continue
					}
					fa, ok := st.Addr.(*ssa.FieldAddr)
					if !ok {
						continue
					}
					v := structField(fa.X.Type(), fa.Field)
					if v == nil || !isIntType(v.Type()) {
						continue
					}
					seen[v] = true
					okStore := false
					if c, ok := st.Val.(*ssa.Const); ok && c.Value != nil && constant.Sign(c.Value) >= 0 {
						okStore = true
					}
					if bo, ok := st.Val.(*ssa.BinOp); ok && bo.Op == token.ADD {
						if c, ok := bo.Y.(*ssa.Const); ok && c.Value != nil && constant.Sign(c.Value) > 0 {
							if ld, ok := bo.X.(*ssa.UnOp); ok && ld.Op == token.MUL {
								if fa2, ok := ld.X.(*ssa.FieldAddr); ok && structField(fa2.X.Type(), fa2.Field) == v {
									okStore = true
								}
							}
						}
					}
					if !okStore {
						bad[v] = true
					}
				}
			}
		}
		for v := range seen {
			if !bad[v] && !v.Exported() {
				e.nnField[v] = true
			}
		}
	}
	return e.nnField[fv]
}

func structField(t types.Type, i int) *types.Var {
	if p, ok := t.Underlying().(*types.Pointer); ok {
		t = p.Elem()
	}
	if s, ok := t.Underlying().(*types.Struct); ok && i < s.NumFields() {
		return s.Field(i)
	}
	return nil
}

// condAtom: a boolean value known to be true (pol) or false (!pol) whenever control is in some block.
type condAtom struct {
	v   ssa.Value
	pol bool
}

// knownConds returns the branch conditions that hold in block b, decomposed: negations, comparisons with
// boolean constants, and the phis go/ssa builds for && and || in value position (tag-less switch cases,
// assignments) are taken apart into their operands.
func knownConds(b *ssa.BasicBlock) []condAtom {
	return condsOf(b, nil, false)
}

// valueConds: what is known when the boolean value v has the value pol (v decomposed like a branch condition).
func valueConds(v ssa.Value, pol bool) []condAtom {
	return condsOf(nil, v, pol)
}

func condsOf(b *ssa.BasicBlock, v0 ssa.Value, pol0 bool) []condAtom {
	var out []condAtom
	seenB := map[*ssa.BasicBlock]bool{}
	seenV := map[ssa.Value]bool{}
	var fromBlock func(b *ssa.BasicBlock)
	var decompose func(v ssa.Value, pol bool, depth int)
	boolConst := func(v ssa.Value) (bool, bool) {
		if c, ok := v.(*ssa.Const); ok && c.Value != nil && c.Value.Kind() == constant.Bool {
			return constant.BoolVal(c.Value), true
		}
		return false, false
	}
	decompose = func(v ssa.Value, pol bool, depth int) {
		if depth > 12 {
			return
		}
		switch x := v.(type) {
		case *ssa.UnOp:
			if x.Op == token.NOT {
				decompose(x.X, !pol, depth+1)
				return
			}
		case *ssa.BinOp:
			if x.Op == token.EQL || x.Op == token.NEQ {
				for _, pair := range [][2]ssa.Value{{x.X, x.Y}, {x.Y, x.X}} {
					if k, ok := boolConst(pair[0]); ok {
						// (k == other) has value pol  =>  other == k iff pol (for ==)
						want := k == pol
						if x.Op == token.NEQ {
							want = k != pol
						}
						decompose(pair[1], want, depth+1)
						return
					}
				}
			}
		case *ssa.Phi:
			if isBoolType(x.Type()) && !seenV[v] {
				seenV[v] = true
				idx, n := -1, 0
				for i, op := range x.Edges {
					if k, ok := boolConst(op); ok && k != pol {
						continue // this edge gives the other value
					}
					idx = i
					n++
				}
				if n == 1 {
					decompose(x.Edges[idx], pol, depth+1)
					p := x.Block().Preds[idx]
					fromBlock(p)
					// the edge itself, when the predecessor branches straight into the merge
					if iff := blockIf(p); iff != nil && p.Succs[0] != p.Succs[1] {
						if p.Succs[0] == x.Block() {
							decompose(iff.Cond, true, depth+1)
						} else if p.Succs[1] == x.Block() {
							decompose(iff.Cond, false, depth+1)
						}
					}
					return
				}
			}
		}
		out = append(out, condAtom{v, pol})
	}
	fromBlock = func(b *ssa.BasicBlock) {
		if seenB[b] {
			return
		}
		seenB[b] = true
		for _, d := range b.Parent().Blocks {
			iff := blockIf(d)
			if iff == nil {
				continue
			}
			for i := 0; i < 2; i++ {
				if edgeDominates(d, i, b) {
					decompose(iff.Cond, i == 0, 0)
				}
			}
		}
	}
	if b != nil {
		fromBlock(b)
	}
	if v0 != nil {
		decompose(v0, pol0, 0)
	}
	return out
}

// entryFacts: the facts about its parameters that hold whenever an unexported package-level function whose
// address is never taken is entered: the intersection, over all its call sites, of the facts that hold at the
// site about the argument values (access paths rooted in an argument are re-rooted in the parameter).
func (e *Engine) entryFacts(fn *ssa.Function) factSet {
	c := e.ctx(fn)
	if c.entryDone {
		return c.entry
	}
	if c.entryBusy {
		return factSet{}
	}
	c.entryBusy = true
	defer func() { c.entryBusy = false }()
	out := factSet{}
	if fn.Parent() != nil || fn.Object() == nil || fn.Object().Exported() || fn.Signature.Recv() != nil || !strings.HasPrefix(fnPkgPath(fn), modPath) || len(fn.Params) == 0 {
		c.entry, c.entryDone = out, true
		return out
	}
	sites := e.callSites(fn)
	if len(sites) == 0 || len(sites) > 8 {
		c.entry, c.entryDone = out, true
		return out
	}
	complete := true
	var acc factSet
	for _, site := range sites {
		if _, isCall := site.(*ssa.Call); !isCall {
			acc = factSet{}
			break
		}
		if e.ctx(site.Parent()).entryBusy {
			complete = false
		}
		args := site.Common().Args
		argKeys := make([]Key, len(args))
		for i, a := range args {
			argKeys[i] = e.keyOf(a)
		}
		// a value reachable from several arguments (the form and the list of its elements) is named through each
		rk := func(k Key) []Key {
			var out []Key
			for i, ak := range argKeys {
				if i < len(fn.Params) && ak.valid() && k.Root == ak.Root && k.Glob == ak.Glob && strings.HasPrefix(k.Path, ak.Path) {
					out = append(out, Key{Root: fn.Params[i], Path: k.Path[len(ak.Path):]})
				}
			}
			return out
		}
		rt := func(t Term) []Term {
			if t.Kind == 0 {
				return []Term{t}
			}
			var out []Term
			for _, k := range rk(t.K) {
				out = append(out, Term{Kind: t.Kind, K: k})
			}
			return out
		}
		here := factSet{}
		for _, f := range e.holding(site.Block()).list() {
			switch f.Kind {
			case "type", "nottype", "nonnil", "nil":
				for _, k := range rk(f.K) {
					g := f
					g.K = k
					here.add(g)
				}
			case "even":
				for _, a := range rt(f.A) {
					g := f
					g.A = a
					here.add(g)
				}
			default:
				for _, a := range rt(f.A) {
					for _, b := range rt(f.B) {
						g := f
						g.A, g.B = a, b
						here.add(g)
					}
				}
			}
		}
		if os.Getenv("LISPCHECK_DEBUG_ENTRY") == fn.Name() {
			fmt.Fprintf(os.Stderr, "entry facts of %s at %s:\n", fn.Name(), site.Parent().Name())
			for i, ak := range argKeys {
				fmt.Fprintf(os.Stderr, "  arg%d key %s\n", i, ak.String())
			}
			for _, f := range e.holding(site.Block()).list() {
				fmt.Fprintf(os.Stderr, "  site: %s\n", f.String())
			}
			for _, f := range here.list() {
				fmt.Fprintf(os.Stderr, "  here: %s\n", f.String())
			}
		}
		if acc == nil {
			acc = here
		} else {
			acc = intersect(acc, here)
		}
	}
	if acc != nil {
		out = acc
	}
	if complete {
		c.entry, c.entryDone = out, true
	}
	return out
}

// enableEntryFacts switches the call-site facts of fn on; reports whether that adds anything.
func (e *Engine) enableEntryFacts(fn *ssa.Function) bool {
	if _, done := e.entryOn[fn]; done {
		return false
	}
	if e.entryOn == nil {
		e.entryOn = map[*ssa.Function]factSet{}
	}
	ef := e.entryFacts(fn)
	if len(ef) == 0 {
		return false
	}
	e.entryOn[fn] = ef
	c := e.ctx(fn)
	c.hold = map[*ssa.BasicBlock]factSet{}
	return true
}

// nonNilOnSuccess: the pointer-typed results (other than the error) of a module function that are known to be
// non-nil on every return whose error may be nil (read_elements: the closing token it found).
func (e *Engine) nonNilOnSuccess(fn *ssa.Function) []int {
	if e.nnSucc == nil {
		e.nnSucc = map[*ssa.Function][]int{}
	}
	if v, ok := e.nnSucc[fn]; ok {
		return v
	}
	e.nnSucc[fn] = nil
	ei := hasErrorResult(fn)
	if fn.Blocks == nil || ei < 1 || !strings.HasPrefix(fnPkgPath(fn), modPath) {
		return nil
	}
	var out []int
	for j := 0; j < ei; j++ {
		if _, isPtr := fn.Signature.Results().At(j).Type().Underlying().(*types.Pointer); !isPtr {
			continue
		}
		all, n := true, 0
		for _, b := range fn.Blocks {
			if len(b.Instrs) == 0 || b == fn.Recover {
				continue
			}
			ret, ok := b.Instrs[len(b.Instrs)-1].(*ssa.Return)
			if !ok || ei >= len(ret.Results) {
				continue
			}
			ev := resolveRet(ret.Results[ei])
			if !isNilConst(ev) {
				if _, isCall := ev.(*ssa.Call); isCall || e.nonNilFact(ev, b) {
					continue // a failure return
				}
				if _, isMI := ev.(*ssa.MakeInterface); isMI {
					continue
				}
			}
			n++
			rv := resolveRet(ret.Results[j])
			_, isAlloc := rv.(*ssa.Alloc)
			_, isAddr := rv.(*ssa.FieldAddr)
			if !isAlloc && !isAddr && !e.nonNilFact(rv, b) {
				all = false
			}
		}
		if all && n > 0 {
			out = append(out, j)
		}
	}
	e.nnSucc[fn] = out
	return out
}

// returnFacts: what is known about the parameters of fn whenever it returns normally (a function that panics
// unless its arguments satisfy a condition establishes that condition for its caller).
func (e *Engine) returnFacts(fn *ssa.Function) []Fact {
	if e.retFacts == nil {
		e.retFacts = map[*ssa.Function][]Fact{}
	}
	if fs, ok := e.retFacts[fn]; ok {
		return fs
	}
	e.retFacts[fn] = nil
	if fn.Blocks == nil || !strings.HasPrefix(fnPkgPath(fn), modPath) {
		return nil
	}
	var acc factSet
	for _, b := range fn.Blocks {
		if len(b.Instrs) == 0 || b == fn.Recover {
			continue
		}
		if _, ok := b.Instrs[len(b.Instrs)-1].(*ssa.Return); !ok {
			continue
		}
		hold := e.holding(b)
		if acc == nil {
			acc = factSet{}
			acc.add(hold.list()...)
		} else {
			acc = intersect(acc, hold)
		}
	}
	var out []Fact
	for _, f := range acc.list() {
		if e.paramRooted(f, fn) {
			out = append(out, f)
		}
	}
	e.retFacts[fn] = out
	return out
}

// substLinFact: like substFact, but an integer parameter is replaced by the linear form of its argument
// (len(x), y-1), adjusting the constant of a difference constraint.
func (e *Engine) substLinFact(f Fact, callee *ssa.Function, args []ssa.Value) (Fact, bool) {
	if f.Kind != "le" {
		return e.substFact(f, callee, args)
	}
	st := func(t Term) (Term, int64, bool) {
		if t.Kind == 0 {
			return t, 0, true
		}
		for i, p := range callee.Params {
			if t.K.Root == ssa.Value(p) && i < len(args) {
				if t.Kind == 2 && t.K.Path == "" {
					return e.linOf(args[i])
				}
				nk := e.keyOf(args[i])
				nk.Path += t.K.Path
				return Term{Kind: t.Kind, K: nk}, 0, true
			}
		}
		return t, 0, false
	}
	a, oa, ok1 := st(f.A)
	b, ob, ok2 := st(f.B)
	if !ok1 || !ok2 {
		return f, false
	}
	// (a+oa) - (b+ob) <= C
	return Fact{Kind: "le", A: a, B: b, C: f.C - oa + ob}, true
}

// holdingAt: the facts that hold just before the instruction: those of its block, and what the functions of the
// module called earlier in the block (or in dominating blocks) establish by returning normally.
func (e *Engine) holdingAt(in ssa.Instruction) factSet {
	b := in.Block()
	fs := factSet{}
	fs.add(e.holding(b).list()...)
	add := func(c *ssa.Call) {
		callee := c.Call.StaticCallee()
		if callee == nil || len(callee.Blocks) == 0 {
			return
		}
		for _, f := range e.returnFacts(callee) {
			if g, ok := e.substLinFact(f, callee, c.Call.Args); ok {
				fs.add(g)
			}
		}
	}
	for _, x := range b.Instrs {
		if x == in {
			break
		}
		if c, ok := x.(*ssa.Call); ok {
			add(c)
		}
	}
	for _, d := range b.Parent().Blocks {
		if d != b && d.Dominates(b) {
			for _, x := range d.Instrs {
				if c, ok := x.(*ssa.Call); ok {
					add(c)
				}
			}
		}
	}
	return fs
}
