package main

// Must-hold lockset analysis (analysis F) over go/ssa, used by C09, C10, C11.

import (
	"fmt"
	"go/token"
	"go/types"
	"sort"
	"strings"

	"golang.org/x/tools/go/ssa"
)

type lockState map[string]int // lock key -> 1 (read) | 2 (write)

func (s lockState) clone() lockState {
	o := lockState{}
	for k, v := range s {
		o[k] = v
	}
	return o
}

func meet(a, b lockState) lockState {
	o := lockState{}
	for k, v := range a {
		if w, ok := b[k]; ok {
			if w < v {
				v = w
			}
			o[k] = v
		}
	}
	return o
}

func (s lockState) String() string {
	var ks []string
	for k, v := range s {
		m := "R"
		if v == 2 {
			m = "W"
		}
		ks = append(ks, k+":"+m)
	}
	sort.Strings(ks)
	return "{" + strings.Join(ks, ",") + "}"
}

type lockOp struct {
	key      string
	base     ssa.Value // the struct the mutex belongs to
	acquire  bool
	mode     int
	deferred bool
}

// mutexOp recognises calls of sync.(RW)Mutex methods and names the lock by the access path of its owner.
func (e *Engine) mutexOp(c *ssa.CallCommon) (lockOp, bool) {
	callee := c.StaticCallee()
	if callee == nil || callee.Pkg == nil || callee.Pkg.Pkg.Path() != "sync" || len(c.Args) == 0 {
		return lockOp{}, false
	}
	var op lockOp
	switch callee.Name() {
	case "Lock":
		op.acquire, op.mode = true, 2
	case "RLock":
		op.acquire, op.mode = true, 1
	case "Unlock":
		op.mode = 2
	case "RUnlock":
		op.mode = 1
	default:
		return lockOp{}, false
	}
	recv := c.Args[0]
	// &x.Mutex (value field) or *(&x.mu) (pointer field)
	switch r := recv.(type) {
	case *ssa.FieldAddr:
		op.base = r.X
		op.key = e.keyOf(r.X).String() + "." + fieldName(r.X.Type(), r.Field)
	case *ssa.UnOp:
		if fa, ok := r.X.(*ssa.FieldAddr); ok && r.Op == token.MUL {
			op.base = fa.X
			op.key = e.keyOf(fa.X).String() + "." + fieldName(fa.X.Type(), fa.Field)
		}
	}
	if op.key == "" {
		op.key = e.keyOf(recv).String()
	}
	return op, true
}

type lockInfo struct {
	fn       *ssa.Function
	in       map[*ssa.BasicBlock]lockState
	before   map[ssa.Instruction]lockState
	deferred map[string]bool // locks released by a deferred unlock
	defers   []deferredUnlock
	acquires []lockOp
	atReturn map[*ssa.Return]lockState
}

func (e *Engine) locks(fn *ssa.Function) *lockInfo {
	if e.lockCache == nil {
		e.lockCache = map[*ssa.Function]*lockInfo{}
	}
	if li, ok := e.lockCache[fn]; ok {
		return li
	}
	li := &lockInfo{fn: fn, in: map[*ssa.BasicBlock]lockState{}, before: map[ssa.Instruction]lockState{}, deferred: map[string]bool{}, atReturn: map[*ssa.Return]lockState{}}
	e.lockCache[fn] = li
	if len(fn.Blocks) == 0 {
		return li
	}
	transfer := func(b *ssa.BasicBlock, st lockState, record bool) lockState {
		st = st.clone()
		for _, in := range b.Instrs {
			if record {
				li.before[in] = st.clone()
			}
			switch x := in.(type) {
			case *ssa.Call:
				if op, ok := e.mutexOp(&x.Call); ok {
					if op.acquire {
						st[op.key] = op.mode
						if record {
							li.acquires = append(li.acquires, op)
						}
					} else {
						delete(st, op.key)
					}
				}
			case *ssa.Defer:
				if op, ok := e.mutexOp(&x.Call); ok && !op.acquire {
					li.deferred[op.key] = true
					if record {
						li.defers = append(li.defers, deferredUnlock{op.key, op.mode, x})
					}
				}
			case *ssa.Return:
				if record {
					li.atReturn[x] = st.clone()
				}
			}
		}
		return st
	}
	// forward must analysis: in[b] = meet over feasible preds of out[p]; entry = {}
	out := map[*ssa.BasicBlock]lockState{}
	li.in[fn.Blocks[0]] = lockState{}
	for changed, iter := true, 0; changed && iter < 50; iter++ {
		changed = false
		for _, b := range fn.Blocks {
			var st lockState
			if b == fn.Blocks[0] {
				st = lockState{}
			} else {
				first := true
				for _, p := range feasiblePreds(b) {
					po, ok := out[p]
					if !ok {
						continue // not yet computed: optimistic
					}
					if first {
						st, first = po.clone(), false
					} else {
						st = meet(st, po)
					}
				}
				if first {
					continue
				}
			}
			no := transfer(b, st, false)
			if old, ok := out[b]; !ok || old.String() != no.String() {
				out[b] = no
				changed = true
			}
			li.in[b] = st
		}
	}
	for _, b := range fn.Blocks {
		if st, ok := li.in[b]; ok {
			transfer(b, st, true)
		}
	}
	return li
}

// guardedField describes one row of the lock discipline table.
type guardedField struct {
	pkg, typ string   // struct
	fields   []string // fields guarded
	mutex    string   // mutex field
}

// Confirmed by reading (one row per shared mutable object of the library):
// guardRows: the lock discipline table; unexported fields are named by their role (roles.go).
func (w *World) guardRows() []guardedField {
	ro := w.roles()
	return []guardedField{
		{"lib/concurrent", "Atom", []string{"Val", ro.atomVersion}, ro.atomMutex},
		{"lib/concurrent", "Future", []string{"Done", "Cancelled"}, ro.futureMu},
		{"env", "Env", []string{ro.envData}, ro.envMu},
	}
}

func (w *World) namedStruct(t types.Type) (pkgRel, name string, ok bool) {
	if p, isPtr := t.Underlying().(*types.Pointer); isPtr {
		t = p.Elem()
	}
	n, isNamed := t.(*types.Named)
	if !isNamed || n.Obj().Pkg() == nil || !strings.HasPrefix(n.Obj().Pkg().Path(), modPath) {
		return "", "", false
	}
	return strings.TrimPrefix(strings.TrimPrefix(n.Obj().Pkg().Path(), modPath), "/"), n.Obj().Name(), true
}

type fieldAccess struct {
	fn    *ssa.Function
	in    ssa.Instruction
	fa    *ssa.FieldAddr
	write bool
	field string
	obj   ssa.Value // the guarded object as the accessing function sees it (nil: fa.X)
}

func (a fieldAccess) object() ssa.Value {
	if a.obj != nil {
		return a.obj
	}
	return a.fa.X
}

// derefsOfParam: the address of a guarded field is handed to a function of the module together with the object
// itself; the function only loads and stores through it: those loads and stores are the accesses.
func derefsOfParam(call *ssa.Call, fa *ssa.FieldAddr, fname string) ([]fieldAccess, bool) {
	h := call.Call.StaticCallee()
	if h == nil || len(h.Blocks) == 0 || !inModule(h) || len(h.Params) != len(call.Call.Args) {
		return nil, false
	}
	pi, oi := -1, -1
	for i, a := range call.Call.Args {
		if a == ssa.Value(fa) {
			pi = i
		}
		if a == fa.X {
			oi = i
		}
	}
	if pi < 0 || oi < 0 {
		return nil, false
	}
	var out []fieldAccess
	for _, ref := range *h.Params[pi].Referrers() {
		switch u := ref.(type) {
		case *ssa.UnOp:
			if u.Op != token.MUL {
				return nil, false
			}
			out = append(out, fieldAccess{h, u, fa, false, fname, h.Params[oi]})
		case *ssa.Store:
			if u.Addr != ssa.Value(h.Params[pi]) {
				return nil, false
			}
			out = append(out, fieldAccess{h, u, fa, true, fname, h.Params[oi]})
		case *ssa.DebugRef:
		default:
			return nil, false
		}
	}
	return out, true
}

// fieldAccesses: every load/store through a FieldAddr (or value Field read) of the given struct's fields.
func (w *World) fieldAccesses(g guardedField) []fieldAccess {
	var out []fieldAccess
	want := map[string]bool{}
	for _, f := range g.fields {
		want[f] = true
	}
	for _, fn := range w.Funcs {
		if isTestFunc(w, fn) {
			continue
		}
		for _, b := range fn.Blocks {
			for _, in := range b.Instrs {
				fa, ok := in.(*ssa.FieldAddr)
				if !ok {
					continue
				}
				pr, name, ok := w.namedStruct(fa.X.Type())
				if !ok || pr != g.pkg || name != g.typ {
					continue
				}
				fname := fieldName(fa.X.Type(), fa.Field)
				if !want[fname] {
					continue
				}
				for _, ref := range *fa.Referrers() {
					switch u := ref.(type) {
					case *ssa.Store:
						if u.Addr == ssa.Value(fa) {
							out = append(out, fieldAccess{fn, u, fa, true, fname, nil})
						}
					case *ssa.UnOp:
						// loading a map or slice and then writing through it is a write of the guarded state
						wr := false
						for _, r2 := range *u.Referrers() {
							switch u2 := r2.(type) {
							case *ssa.MapUpdate:
								if u2.Map == ssa.Value(u) {
									wr = true
								}
							case *ssa.IndexAddr:
								for _, r3 := range *u2.Referrers() {
									if st, ok := r3.(*ssa.Store); ok && st.Addr == ssa.Value(u2) {
										wr = true
									}
								}
							case ssa.CallInstruction:
								if bi, ok := u2.Common().Value.(*ssa.Builtin); ok && (bi.Name() == "delete" || bi.Name() == "clear") && len(u2.Common().Args) > 0 && u2.Common().Args[0] == ssa.Value(u) {
									wr = true
								}
							}
						}
						out = append(out, fieldAccess{fn, u, fa, wr, fname, nil})
					case *ssa.MapUpdate:
						out = append(out, fieldAccess{fn, u, fa, true, fname, nil})
					default:
						if c, isCall := ref.(*ssa.Call); isCall {
							if accs, ok := derefsOfParam(c, fa, fname); ok {
								out = append(out, accs...)
								continue
							}
						}
						// address escapes (passed on): treat as write access
						if _, isDbg := ref.(*ssa.DebugRef); !isDbg {
							out = append(out, fieldAccess{fn, ref, fa, true, fname, nil})
						}
					}
				}
			}
		}
	}
	return out
}

// freshPtr: pointer to a struct allocated in this activation (composite literal / new), or the
// result of a module function that returns such a pointer on every path.
func (e *Engine) freshPtr(v ssa.Value, depth int) bool {
	if depth > 6 {
		return false
	}
	switch x := v.(type) {
	case *ssa.Alloc:
		return true
	case *ssa.Call:
		// the result must not have been handed to anyone: every use is a field access, a method call on it
		// being checked, or the final return
		if depth == 0 && escapes(x) {
			return false
		}
		if callee := x.Call.StaticCallee(); callee != nil && callee.Blocks != nil && strings.HasPrefix(fnPkgPath(callee), modPath) {
			for _, b := range callee.Blocks {
				if len(b.Instrs) == 0 {
					continue
				}
				if ret, ok := b.Instrs[len(b.Instrs)-1].(*ssa.Return); ok {
					if len(ret.Results) == 0 || !e.freshPtr(ret.Results[0], depth+1) {
						return false
					}
				}
			}
			return true
		}
	case *ssa.Phi:
		for _, op := range x.Edges {
			if !e.freshPtr(op, depth+1) {
				return false
			}
		}
		return true
	case *ssa.MakeInterface:
		return e.freshPtr(x.X, depth+1)
	case *ssa.ChangeInterface:
		return e.freshPtr(x.X, depth+1)
	case *ssa.UnOp:
		// a variable kept in a cell (a closure reads it): the one store that reaches this load
		if al, ok := x.X.(*ssa.Alloc); ok && x.Op == token.MUL && !e.versionsOf(al).volatile {
			if val, _ := e.cellValue(x, al); val != nil {
				return e.freshPtr(val, depth+1)
			}
		}
	}
	return false
}

// guardRule checks one row of the table. Functions that touch the field without
// acquiring the lock themselves are "lock-required": every call site must hold
// the lock of the same object (or be lock-required itself on the same object).
func guardRule(w *World, r *Report, e *Engine, rule string, g guardedField) {
	acc := w.fieldAccesses(g)
	required := map[*ssa.Function]int{} // fn -> mode required on its receiver (param 0)
	reqParam := map[*ssa.Function]int{} // fn -> index of the parameter the requirement is on (0 for methods)
	// the parameter of a method (its receiver) or of an unexported plain function that the guarded object is
	paramObj := func(fn *ssa.Function, v ssa.Value) (int, bool) {
		for i, p := range fn.Params {
			if v != ssa.Value(p) {
				continue
			}
			if fn.Signature.Recv() != nil {
				return i, i == 0
			}
			// (not a function whose value is taken - a registered builtin is entered by the binder, which holds no lock)
			if fn.Parent() == nil && fn.Object() != nil && !fn.Object().Exported() && !e.escapedFn(fn) {
				if cur, ok := reqParam[fn]; !ok || cur == i {
					return i, true
				}
			}
		}
		return 0, false
	}
	type pending struct {
		a    fieldAccess
		mode int
	}
	n := 0
	for _, a := range acc {
		n++
		li := e.locks(a.fn)
		st := li.before[a.in]
		key := e.keyOf(a.object()).String() + "." + g.mutex
		need := 1
		if a.write {
			need = 2
		}
		construct := "read "
		if a.write {
			construct = "write "
		}
		construct += g.typ + "." + a.field
		switch {
		case st[key] >= need:
			r.ok(rule, a.fn, construct, instrPos(a.in), "lock "+key+" held "+st.String())
		case e.freshPtr(a.object(), 0):
			r.ok(rule, a.fn, construct, instrPos(a.in), "object allocated in this activation, not yet shared")
		case st[key] > 0 && st[key] < need:
			r.bad(rule, a.fn, construct, instrPos(a.in), "written while only the read lock is held")
		default:
			// receiver-based requirement: the object is the function's receiver (parameter 0)
			if pi, ok := paramObj(a.fn, a.object()); ok {
				if required[a.fn] < need {
					required[a.fn] = need
				}
				reqParam[a.fn] = pi
				r.ok(rule, a.fn, construct, instrPos(a.in), "function entered with the lock of this object held, or on an object not yet shared (checked at every call site below)")
			} else {
				r.bad(rule, a.fn, construct, instrPos(a.in), "accessed without holding "+key+" (held: "+st.String()+")")
			}
		}
	}
	// call sites of lock-required methods (fixpoint: a lock-required method may call another on the same receiver)
	checked := map[string]bool{}
	for changed := true; changed; {
		changed = false
		for _, fn := range w.Funcs {
			if isTestFunc(w, fn) {
				continue
			}
			li := e.locks(fn)
			for _, b := range fn.Blocks {
				for _, in := range b.Instrs {
					ci, ok := in.(ssa.CallInstruction)
					if !ok {
						continue
					}
					c := ci.Common()
					var targets []*ssa.Function
					var recv ssa.Value
					if sc := c.StaticCallee(); sc != nil {
						if _, req := required[sc]; req && len(c.Args) > reqParam[sc] {
							targets, recv = []*ssa.Function{sc}, c.Args[reqParam[sc]]
						}
					} else if c.IsInvoke() {
						for _, d := range w.dynCallees(ci) {
							if _, req := required[d]; req {
								targets = append(targets, d)
								recv = c.Value
							}
						}
					}
					for _, t := range targets {
						need := required[t]
						key := e.keyOf(recv).String() + "." + g.mutex
						st := li.before[in]
						id := w.fnName(fn) + "|" + w.pos(in.Pos()) + "|" + t.Name()
						construct := "call " + t.Name() + " on " + describeVal(e, recv, 0)
						if _, isDefer := in.(*ssa.Defer); isDefer {
							continue
						}
						ok := st[key] >= need
						why := "caller holds " + st.String()
						if st[key] > 0 && st[key] < need {
							if !checked[id] {
								checked[id] = true
								r.bad(rule, fn, construct, in.Pos(), "a method that writes the guarded state is called while only the read lock is held (held: "+st.String()+"): the write runs alongside other readers")
							}
							continue
						}
						if pi, isP := paramObj(fn, recv); !ok && isP {
							// same object: the caller becomes lock-required itself
							if required[fn] < need {
								required[fn] = need
								changed = true
							}
							reqParam[fn] = pi
							ok, why = true, "caller is itself entered with the object's lock held"
						}
						if !ok && e.freshPtr(recv, 0) {
							// ... and not yet handed to anybody: a scope passed to the evaluator can be seen by a future
							// the evaluated form started, from then on it is shared
							if esc := handedOnBefore(recv, in); esc != nil {
								why = "the object was allocated here but handed to " + describeCallInstr(e, esc) + " before this call: whatever that started (a future) reads it while this call writes it unlocked"
							} else {
								ok, why = true, "receiver allocated in this activation"
							}
						}
						if checked[id] {
							continue
						}
						if ok {
							checked[id] = true
							r.ok(rule, fn, construct, in.Pos(), why)
						} else if !changed {
							checked[id] = true
							r.bad(rule, fn, construct, in.Pos(), "lock-required method called without the lock of that object (held: "+st.String()+")")
						}
					}
				}
			}
		}
	}
	r.Notes = append(r.Notes, rule+": lock-required methods of "+g.typ+": "+reqNames(w, required))
}

func reqNames(w *World, m map[*ssa.Function]int) string {
	var s []string
	for f := range m {
		s = append(s, f.Name())
	}
	sort.Strings(s)
	return strings.Join(s, ",")
}

// pairRule: every lock acquired in fn is released on every return (directly or by a deferred unlock).
type deferredUnlock struct {
	key  string
	mode int
	in   *ssa.Defer
}

func pairRule(w *World, r *Report, e *Engine, rule string, fns []*ssa.Function) int {
	n := 0
	for _, fn := range fns {
		li := e.locks(fn)
		if len(li.acquires) == 0 {
			continue
		}
		for ret, st := range li.atReturn {
			for k := range st {
				n++
				// the deferred unlock counts when it has been registered on every path to this return, and
				// releases the lock in the mode it is held in
				registered := false
				for _, d := range li.defers {
					if d.key == k && d.mode == st[k] && (d.in.Block() == ret.Block() || d.in.Block().Dominates(ret.Block())) {
						registered = true
					}
				}
				switch {
				case registered:
					r.ok(rule, fn, "release of "+k, ret.Pos(), "deferred unlock registered")
				case li.deferred[k]:
					r.bad(rule, fn, "release of "+k, ret.Pos(), "the lock is still held at this return and the deferred unlock of the function is registered only later (or releases the other mode): this path leaves the lock held, and every later operation on the object blocks forever")
				default:
					r.bad(rule, fn, "release of "+k, ret.Pos(), "lock still held at this return and no deferred unlock")
				}
			}
		}
		for _, a := range li.acquires {
			n++
			r.ok(rule, fn, "acquire "+a.key, token.NoPos, "paired on every return (see releases) or released explicitly")
		}
	}
	return n
}

// callsUnderLock lists calls made while a lock whose key contains `mutexSuffix` is held.
type lockedCall struct {
	fn   *ssa.Function
	in   ssa.CallInstruction
	held lockState
}

func (e *Engine) callsUnderLock(fn *ssa.Function, keep func(key string) bool) []lockedCall {
	li := e.locks(fn)
	var out []lockedCall
	for _, b := range fn.Blocks {
		for _, in := range b.Instrs {
			ci, ok := in.(ssa.CallInstruction)
			if !ok {
				continue
			}
			if _, isDefer := in.(*ssa.Defer); isDefer {
				continue
			}
			st := li.before[in]
			held := lockState{}
			for k, v := range st {
				if keep(k) {
					held[k] = v
				}
			}
			if len(held) == 0 {
				continue
			}
			if _, isM := e.mutexOp(ci.Common()); isM {
				continue
			}
			if _, isB := ci.Common().Value.(*ssa.Builtin); isB {
				continue
			}
			out = append(out, lockedCall{fn, ci, held})
		}
	}
	return out
}

// reachesEval: can the call reach the evaluator (EVAL / types.Apply / a Func.Fn / any function value)?
func (w *World) reachesEval(ci ssa.CallInstruction) (bool, string) {
	c := ci.Common()
	if _, isBuiltin := c.Value.(*ssa.Builtin); isBuiltin {
		return false, "" // append, len, copy … do not call anything
	}
	evalFn, applyFn := w.Fn("", "EVAL"), w.Fn("types", "Apply")
	var roots []*ssa.Function
	if sc := c.StaticCallee(); sc != nil {
		if !strings.HasPrefix(fnPkgPath(sc), modPath) {
			return false, ""
		}
		roots = []*ssa.Function{sc}
	} else if c.IsInvoke() {
		roots = w.dynCallees(ci)
		if len(roots) == 0 {
			return false, ""
		}
	} else {
		// call of a function-typed parameter: resolve through the arguments passed at every call site
		if p, ok := c.Value.(*ssa.Parameter); ok {
			if vals, ok := w.paramFuncValues(p); ok {
				reach := w.reachableFrom(vals)
				if reach[evalFn] || reach[applyFn] {
					return true, "a callback passed by some caller reaches the evaluator"
				}
				return false, ""
			}
		}
		// a function stored in a struct field: when every value ever stored into that field comes from outside the
		// module (context.WithCancel's cancel function …) it cannot reach the evaluator
		if ld, ok := c.Value.(*ssa.UnOp); ok {
			if fa, ok := ld.X.(*ssa.FieldAddr); ok {
				if vals, ok := w.fieldStores(fa); ok {
					external := len(vals) > 0
					for _, v := range vals {
						if !w.externalFuncValue(v, 0) {
							external = false
						}
					}
					if external {
						return false, ""
					}
				}
			}
		}
		// call of a function value: a callback of unknown provenance
		ds := w.dynCallees(ci)
		if len(ds) == 0 {
			return true, "call of a function value"
		}
		roots = ds
	}
	reach := w.reachableFrom(roots)
	if reach[evalFn] {
		return true, "reaches EVAL"
	}
	if reach[applyFn] {
		return true, "reaches types.Apply"
	}
	return false, ""
}

// paramFuncValues: the function literals / functions passed for function-typed parameter p at
// every call site of its function in the module (static calls and interface invokes). ok=false if
// some site passes something else.
func (w *World) paramFuncValues(p *ssa.Parameter) ([]*ssa.Function, bool) {
	fn := p.Parent()
	idx := -1
	for i, q := range fn.Params {
		if q == p {
			idx = i
		}
	}
	if idx < 0 {
		return nil, false
	}
	var out []*ssa.Function
	n := 0
	for _, f := range w.Funcs {
		if isTestFunc(w, f) {
			continue
		}
		for _, b := range f.Blocks {
			for _, in := range b.Instrs {
				ci, ok := in.(ssa.CallInstruction)
				if !ok {
					continue
				}
				c := ci.Common()
				var arg ssa.Value
				if c.StaticCallee() == fn && idx < len(c.Args) {
					arg = c.Args[idx]
				} else if c.IsInvoke() && fn.Signature.Recv() != nil && c.Method.Name() == fn.Name() {
					if iface, ok := c.Value.Type().Underlying().(*types.Interface); ok && types.Implements(fn.Signature.Recv().Type(), iface) && idx-1 < len(c.Args) && idx >= 1 {
						arg = c.Args[idx-1]
					}
				}
				if arg == nil {
					continue
				}
				n++
				switch g := arg.(type) {
				case *ssa.MakeClosure:
					out = append(out, g.Fn.(*ssa.Function))
				case *ssa.Function:
					out = append(out, g)
				case *ssa.Parameter:
					// handed on from the caller's own function-typed parameter (Update -> updateNT)
					if w.pfvDepth > 3 {
						return nil, false
					}
					w.pfvDepth++
					more, ok := w.paramFuncValues(g)
					w.pfvDepth--
					if !ok {
						return nil, false
					}
					out = append(out, more...)
				default:
					return nil, false
				}
			}
		}
	}
	return out, n > 0
}

// escapes: the value is passed to a call (other than as the receiver of the lock-required method under
// scrutiny), stored, captured or sent before the function returns it.
func escapes(v ssa.Value) bool {
	var visit func(v ssa.Value, depth int) bool
	visit = func(v ssa.Value, depth int) bool {
		if depth > 4 {
			return true
		}
		for _, ref := range *v.Referrers() {
			switch u := ref.(type) {
			case *ssa.FieldAddr, *ssa.Field, *ssa.DebugRef, *ssa.Return:
			case *ssa.MakeInterface:
				if visit(u, depth+1) {
					return true
				}
			case *ssa.ChangeInterface:
				if visit(u, depth+1) {
					return true
				}
			case *ssa.Phi:
				if visit(u, depth+1) {
					return true
				}
			case *ssa.Extract:
				if visit(u, depth+1) {
					return true
				}
			case ssa.CallInstruction:
				// receiver of an invoke / first argument of a method call on the object itself
				c := u.Common()
				if c.IsInvoke() && c.Value == v {
					continue
				}
				isRecvOnly := len(c.Args) > 0 && c.Args[0] == v
				for _, a := range c.Args[1:] {
					if a == v {
						isRecvOnly = false
					}
				}
				if c.StaticCallee() != nil && c.StaticCallee().Signature.Recv() != nil && isRecvOnly {
					continue
				}
				// an unexported function of the module that neither stores, returns nor hands on the parameter
				if sc := c.StaticCallee(); sc != nil && sc.Signature.Recv() == nil && sc.Parent() == nil && sc.Object() != nil && !sc.Object().Exported() && strings.HasPrefix(fnPkgPath(sc), modPath) && len(sc.Blocks) > 0 {
					kept := false
					for i, a := range c.Args {
						if a == v && (i >= len(sc.Params) || paramEscapes(sc.Params[i], map[*ssa.Function]bool{}, 0)) {
							kept = true
						}
					}
					if !kept {
						continue
					}
				}
				return true
			default:
				return true
			}
		}
		return false
	}
	return visit(v, 0)
}

// fieldStores: every value stored, anywhere in the module, into the field that fa selects (by struct type and
// field index); ok is false when the field's address escapes in a way that hides stores.
func (w *World) fieldStores(fa *ssa.FieldAddr) ([]ssa.Value, bool) {
	st := derefType(fa.X.Type())
	var out []ssa.Value
	for _, fn := range w.Funcs {
		if isTestFunc(w, fn) {
			continue
		}
		for _, b := range fn.Blocks {
			for _, in := range b.Instrs {
				f2, ok := in.(*ssa.FieldAddr)
				if !ok || f2.Field != fa.Field || !types.Identical(derefType(f2.X.Type()), st) {
					continue
				}
				for _, ref := range *f2.Referrers() {
					switch u := ref.(type) {
					case *ssa.Store:
						if u.Addr == ssa.Value(f2) {
							out = append(out, u.Val)
						}
					case *ssa.UnOp, *ssa.DebugRef:
					default:
						return nil, false
					}
				}
			}
		}
	}
	return out, true
}

// acquiresOn: fn (or a module function it statically calls with the same object) acquires the mutex field fld of its
// parameter number idx. Returns the acquiring call's position.
func (e *Engine) acquiresOn(fn *ssa.Function, idx int, fld string, depth int, seen map[*ssa.Function]bool) (token.Pos, bool) {
	if fn == nil || len(fn.Blocks) == 0 || idx >= len(fn.Params) || depth > 4 || seen[fn] {
		return token.NoPos, false
	}
	seen[fn] = true
	pkey := e.keyOf(fn.Params[idx]).String()
	for _, op := range e.locks(fn).acquires {
		if op.key == pkey+"."+fld {
			for _, b := range fn.Blocks {
				for _, in := range b.Instrs {
					if c, ok := in.(*ssa.Call); ok {
						if o2, ok := e.mutexOp(&c.Call); ok && o2.acquire && o2.key == op.key {
							return c.Pos(), true
						}
					}
				}
			}
			return fn.Pos(), true
		}
	}
	for _, b := range fn.Blocks {
		for _, in := range b.Instrs {
			ci, ok := in.(ssa.CallInstruction)
			if !ok {
				continue
			}
			if _, isGo := in.(*ssa.Go); isGo {
				continue
			}
			callee := ci.Common().StaticCallee()
			if !inModule(callee) {
				continue
			}
			for j, a := range ci.Common().Args {
				if e.keyOf(a).String() == pkey {
					if p, ok := e.acquiresOn(callee, j, fld, depth+1, seen); ok {
						return p, true
					}
				}
			}
		}
	}
	return token.NoPos, false
}

// reentryRule: sync.Mutex and sync.RWMutex are not re-entrant, not even for readers (a writer queued between two
// RLock calls of one goroutine blocks the second, and the first is never released). No function acquires a mutex
// it already holds, and none calls, with the lock held, a function that acquires the mutex of the same object.
func reentryRule(w *World, r *Report, e *Engine, rule string, fns []*ssa.Function) int {
	n := 0
	for _, fn := range fns {
		if isTestFunc(w, fn) || len(fn.Blocks) == 0 {
			continue
		}
		li := e.locks(fn)
		for _, b := range fn.Blocks {
			for _, in := range b.Instrs {
				ci, ok := in.(ssa.CallInstruction)
				if !ok {
					continue
				}
				if _, isDefer := in.(*ssa.Defer); isDefer {
					continue
				}
				if _, isGo := in.(*ssa.Go); isGo {
					continue
				}
				held := li.before[in]
				if len(held) == 0 {
					continue
				}
				if op, ok := e.mutexOp(ci.Common()); ok {
					if op.acquire {
						n++
						_, again := held[op.key]
						r.check(!again, rule, fn, "acquisition of "+op.key+" with "+held.String()+" held", in.Pos(), "a different lock", "the mutex is acquired while this function already holds it: Go's mutexes are not re-entrant (two read locks deadlock as soon as a writer queues between them)")
					}
					continue
				}
				callee := ci.Common().StaticCallee()
				if !inModule(callee) {
					continue
				}
				for k := range held {
					dot := strings.LastIndex(k, ".")
					if dot < 0 {
						continue
					}
					base, fld := k[:dot], k[dot+1:]
					for j, a := range ci.Common().Args {
						if e.keyOf(a).String() != base {
							continue
						}
						n++
						pos, acq := e.acquiresOn(callee, j, fld, 0, map[*ssa.Function]bool{})
						r.check(!acq, rule, fn, "call of "+w.fnName(callee)+" with "+k+" held", in.Pos(), "the callee does not lock the same object", "the callee acquires the same object's mutex at "+w.pos(pos)+" while the caller still holds it: Go's mutexes are not re-entrant (two read locks deadlock as soon as a writer queues between them), every later operation on the object then blocks forever")
					}
				}
			}
		}
	}
	return n
}

// objectWritesRule: the objects programs share by reference (atoms, futures) carry their own mutex; whatever
// is stored into any of their fields once the object exists is stored with that mutex held in write mode -
// also from outside their package (a builtin that attaches something to the object a program handed it
// writes into an object every other evaluation may be reading).
func objectWritesRule(w *World, r *Report, e *Engine, rule string) {
	r.rule(rule, "every store into a field of an atom or a future that the guard rules do not list (metadata, channels, cancel function; from any package) is made on an object allocated in the same activation or with that object's mutex held in write mode: no builtin updates in place an object that other evaluations share")
	n := 0
	for _, row := range w.guardRows()[:2] {
		pkg := w.ByPath[modPath+"/"+row.pkg]
		if pkg == nil || pkg.Types.Scope().Lookup(row.typ) == nil {
			r.undecided(rule, nil, row.typ, token.NoPos, "type no longer resolves")
			continue
		}
		st, ok := pkg.Types.Scope().Lookup(row.typ).Type().Underlying().(*types.Struct)
		if !ok {
			continue
		}
		g := guardedField{pkg: row.pkg, typ: row.typ, mutex: row.mutex}
		for i := 0; i < st.NumFields(); i++ {
			f := st.Field(i)
			if f.Name() == row.mutex || isSyncMutex(f.Type()) || strings.HasPrefix(f.Type().String(), "sync.") {
				continue
			}
			listed := false
			for _, lf := range row.fields {
				listed = listed || lf == f.Name()
			}
			if listed {
				continue // reads and writes of these are the business of the guard rule (lock-required methods included)
			}
			g.fields = append(g.fields, f.Name())
		}
		for _, a := range w.fieldAccesses(g) {
			st, isStore := a.in.(*ssa.Store)
			if !isStore || st.Addr != ssa.Value(a.fa) {
				continue
			}
			n++
			held := e.locks(a.fn).before[a.in]
			key := e.keyOf(a.object()).String() + "." + g.mutex
			construct := "store into " + g.typ + "." + a.field
			switch {
			case held[key] >= 2:
				r.ok(rule, a.fn, construct, instrPos(a.in), "write lock "+key+" held")
			case e.freshPtr(a.object(), 0):
				r.ok(rule, a.fn, construct, instrPos(a.in), "object allocated in this activation, not yet shared")
			case freshAtEveryCall(w, e, a.object()):
				r.ok(rule, a.fn, construct, instrPos(a.in), "an unexported initialiser: every caller hands it an object it has just allocated")
			default:
				r.bad(rule, a.fn, construct, instrPos(a.in), "a field of an object that programs share by reference is assigned without its mutex ("+key+"; held: "+held.String()+"): an evaluation that was only handed the object changes it for every other evaluation, and the unsynchronised write races with their reads")
			}
		}
	}
	r.floor(rule, "stores into the remaining fields of atoms and futures", n, 3)
}

// tableEscapeRule: a scope's binding table is reached only through the scope's own methods, which take its
// lock and write only what def writes. The table itself never leaves them: a load of the table field is
// used to look up, update, range over or measure the table - it is not returned, stored, boxed or passed
// to another function. (A getter that returns the table lets whoever displays the bindings - the stepping
// engine - write into it, behind the lock and behind def.)
func tableEscapeRule(w *World, r *Report, rule string) {
	ro := w.roles()
	r.rule(rule, "the binding table of a scope (the map field of env.Env) is used only for lookup, update, iteration, len and delete where it is loaded: it is never returned, assigned to another variable that is returned, stored, boxed into an interface or passed to a function, so no holder of a scope can read or write bindings except through the scope's locked methods")
	g := guardedField{pkg: "env", typ: "Env", fields: []string{ro.envData}, mutex: ro.envMu}
	n := 0
	seenLoad := map[ssa.Value]bool{}
	for _, a := range w.fieldAccesses(g) {
		ld, ok := a.in.(*ssa.UnOp)
		if !ok || seenLoad[ld] {
			continue
		}
		seenLoad[ld] = true
		n++
		escape := ""
		seen := map[ssa.Value]bool{}
		var follow func(v ssa.Value, depth int)
		follow = func(v ssa.Value, depth int) {
			if seen[v] || depth > 6 || v.Referrers() == nil {
				return
			}
			seen[v] = true
			for _, ref := range *v.Referrers() {
				switch u := ref.(type) {
				case *ssa.Lookup, *ssa.MapUpdate, *ssa.Range, *ssa.DebugRef:
				case *ssa.Phi:
					follow(u, depth+1)
				case *ssa.BinOp:
					// comparison with nil
				case ssa.CallInstruction:
					if bi, ok := u.Common().Value.(*ssa.Builtin); ok && (bi.Name() == "len" || bi.Name() == "delete" || bi.Name() == "clear") {
						continue
					}
					// a function of the same package that only looks the table up, ranges over it or measures it
					if sc := u.Common().StaticCallee(); sc != nil && sc.Pkg == a.fn.Pkg && sc.Parent() == nil && sc.Object() != nil && !sc.Object().Exported() && len(sc.Blocks) > 0 && depth < 3 {
						handed := false
						for i, arg := range u.Common().Args {
							if arg == v && i < len(sc.Params) {
								handed = true
								follow(sc.Params[i], depth+1)
							}
						}
						if handed {
							continue
						}
					}
					escape = "passed to " + describeCallInstr(nil, u)
				case *ssa.Return:
					escape = "returned"
				case *ssa.Store:
					if u.Val == v {
						escape = "stored into " + describeVal(nil, u.Addr, 0)
					}
				case *ssa.MakeInterface:
					escape = "boxed into an interface value"
				case *ssa.MakeClosure:
					escape = "captured by a closure"
				default:
					escape = fmt.Sprintf("used by %T", ref)
				}
			}
		}
		follow(ld, 0)
		r.check(escape == "", rule, a.fn, "use of the binding table loaded from a scope", instrPos(a.in), "lookup, update, iteration, len or delete only", "the scope's own binding table is "+escape+": the caller holds the live map of a scope (for the root scope: the global bindings), so displaying or merging bindings writes into scopes behind their lock, and whoever is handed a scope can rebind names without def")
	}
	r.floor(rule, "loads of the binding table", n, 5)
}

// updateAtomicRule: the scope's read-modify-write (Update: read the binding, hand it to the caller's
// function, store what that returns) is one critical section. The binder keeps its registry of bound
// functions with it; two registrations on one environment that each read the old registry and store their
// own copy lose one of the two names. In every method of a scope that calls a function value it was given,
// the scope's lock is held in write mode at that call and at every access to the scope's table in it.
func updateAtomicRule(w *World, r *Report, e *Engine, rule string) {
	ro := w.roles()
	r.rule(rule, "a method of env.Env that applies a function it was given (Update) holds the scope's mutex in write mode at the call of that function and at every read or write of the binding it makes (through the lock-free methods): reading, computing and storing are one critical section, so concurrent registrations on one environment all end up in the registry")
	n := 0
	for _, fn := range w.pkgFuncs("env") {
		if fn.Signature.Recv() == nil || len(fn.Blocks) == 0 || len(fn.Params) == 0 {
			continue
		}
		if _, name, ok := w.namedStruct(fn.Params[0].Type()); !ok || name != "Env" {
			continue
		}
		li := e.locks(fn)
		key := e.keyOf(fn.Params[0]).String() + "." + ro.envMu
		var cb []ssa.Instruction
		for _, b := range fn.Blocks {
			for _, in := range b.Instrs {
				c, ok := in.(*ssa.Call)
				if !ok || c.Call.IsInvoke() || c.Call.StaticCallee() != nil {
					continue
				}
				if p, ok := c.Call.Value.(*ssa.Parameter); ok && p.Parent() == fn {
					cb = append(cb, in)
				}
			}
		}
		if len(cb) == 0 {
			continue
		}
		// a lock-free body (the *NT convention): entered with the write lock of the same scope held at every call
		heldAtEntry := false
		if fn.Object() != nil && !fn.Object().Exported() {
			sites := e.callSites(fn)
			heldAtEntry = len(sites) > 0
			for _, cs := range sites {
				if cs.Common().IsInvoke() || len(cs.Common().Args) == 0 {
					heldAtEntry = false
					continue
				}
				ckey := e.keyOf(cs.Common().Args[0]).String() + "." + ro.envMu
				if e.locks(cs.Parent()).before[cs][ckey] < 2 {
					heldAtEntry = false
				}
			}
		}
		for _, in := range cb {
			n++
			if heldAtEntry {
				r.ok(rule, fn, "call of the caller's function", in.Pos(), "the method is only entered with the scope's write lock held (checked at its call sites)")
				continue
			}
			r.check(li.before[in][key] >= 2, rule, fn, "call of the caller's function", in.Pos(), "write lock "+key+" held", "the function that computes the new value runs without the scope's write lock (held: "+li.before[in].String()+"): between reading the old value and storing the new one another goroutine's update gets in, and one of the two is lost (a function bound concurrently is missing from the registry)")
		}
		// the accesses on the same receiver around it
		for _, b := range fn.Blocks {
			for _, in := range b.Instrs {
				c, ok := in.(*ssa.Call)
				if !ok || c.Call.StaticCallee() == nil || len(c.Call.Args) == 0 || c.Call.Args[0] != ssa.Value(fn.Params[0]) {
					continue
				}
				if sc := c.Call.StaticCallee(); sc.Signature.Recv() == nil || fnPkgPath(sc) != fnPkgPath(fn) {
					continue
				}
				n++
				if heldAtEntry {
					r.ok(rule, fn, "access to the binding: "+c.Call.StaticCallee().Name(), in.Pos(), "inside the caller's write-locked section")
					continue
				}
				r.check(li.before[in][key] >= 2, rule, fn, "access to the binding: "+c.Call.StaticCallee().Name(), in.Pos(), "inside the write-locked section", "the binding is read or written outside the critical section of the update (held: "+li.before[in].String()+"): read, compute and store are separate steps that another goroutine can interleave")
			}
		}
	}
	r.floor(rule, "calls made by the read-modify-write methods of a scope", n, 3)
}

// freshAtEveryCall: v is a parameter of an unexported function or method of the module, and at every call
// site the argument is an object allocated in the caller's activation (an initialiser split off a constructor).
func freshAtEveryCall(w *World, e *Engine, v ssa.Value) bool {
	p, ok := v.(*ssa.Parameter)
	if !ok || p.Parent() == nil || p.Parent().Object() == nil || p.Parent().Object().Exported() {
		return false
	}
	args := w.callSiteArgs(p)
	if len(args) == 0 {
		return false
	}
	for _, a := range args {
		if !e.freshPtr(a, 0) {
			return false
		}
	}
	return true
}

// externalFuncValue: the function value comes from outside the module (a result of a call of a function of
// another module such as context.WithCancel, or such a function itself) - also when it arrives through a
// parameter of an unexported function whose every caller passes such a value.
func (w *World) externalFuncValue(v ssa.Value, depth int) bool {
	if depth > 3 {
		return false
	}
	switch x := v.(type) {
	case *ssa.Extract:
		if cc, ok := x.Tuple.(*ssa.Call); ok && cc.Call.StaticCallee() != nil && !strings.HasPrefix(fnPkgPath(cc.Call.StaticCallee()), modPath) {
			return true
		}
	case *ssa.Function:
		return !strings.HasPrefix(fnPkgPath(x), modPath)
	case *ssa.Parameter:
		if x.Parent() == nil || x.Parent().Object() == nil || x.Parent().Object().Exported() {
			return false
		}
		args := w.callSiteArgs(x)
		if len(args) == 0 {
			return false
		}
		for _, a := range args {
			if !w.externalFuncValue(a, depth+1) {
				return false
			}
		}
		return true
	case *ssa.Phi:
		for _, ed := range x.Edges {
			if !w.externalFuncValue(ed, depth+1) {
				return false
			}
		}
		return len(x.Edges) > 0
	}
	return false
}

// arrivesAs: v is target, or a parameter of an unexported function that is handed target (in the same sense)
// at every call site.
func (w *World) arrivesAs(v, target ssa.Value, depth int) bool {
	if v == target {
		return true
	}
	p, ok := v.(*ssa.Parameter)
	if !ok || depth > 3 || p.Parent() == nil || p.Parent().Object() == nil || p.Parent().Object().Exported() {
		return false
	}
	args := w.callSiteArgs(p)
	if len(args) == 0 {
		return false
	}
	for _, a := range args {
		if !w.arrivesAs(a, target, depth+1) {
			return false
		}
	}
	return true
}

// handedOnBefore: a call other than the object's own methods that is given v (or v boxed) as an argument and from
// which the instruction at can be reached.
func handedOnBefore(v ssa.Value, at ssa.Instruction) ssa.CallInstruction {
	vals := []ssa.Value{v}
	if v.Referrers() != nil {
		for _, ref := range *v.Referrers() {
			switch x := ref.(type) {
			case *ssa.MakeInterface:
				vals = append(vals, x)
			case *ssa.ChangeInterface:
				vals = append(vals, x)
			}
		}
	}
	for _, val := range vals {
		if val.Referrers() == nil {
			continue
		}
		for _, ref := range *val.Referrers() {
			ci, ok := ref.(ssa.CallInstruction)
			if !ok || ci == at {
				continue
			}
			isArg := false
			for _, a := range ci.Common().Args {
				if a == val {
					isArg = true
				}
			}
			// (the receiver of a static method call is its first argument: the object's own methods do not publish it)
			if sc := ci.Common().StaticCallee(); sc != nil && sc.Signature.Recv() != nil && len(ci.Common().Args) > 0 && ci.Common().Args[0] == val {
				isArg = false
				for _, a := range ci.Common().Args[1:] {
					if a == val {
						isArg = true
					}
				}
			}
			if !isArg {
				continue
			}
			if ci.Block() == at.Block() {
				before := false
				for _, in := range at.Block().Instrs {
					if in == ssa.Instruction(ci) {
						before = true
					}
					if in == at {
						break
					}
				}
				if before || blockReaches(ci.Block(), at.Block(), false) {
					return ci
				}
				continue
			}
			if blockReaches(ci.Block(), at.Block(), false) {
				return ci
			}
		}
	}
	return nil
}
