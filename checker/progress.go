package main

// Loop and recursion inventory (analysis G) for the reader/printer closure:
// every natural loop is (a) a counted / range loop, (b) a loop driven by the
// trusted scanner, (c) a loop that shortens its input string with strings.Cut,
// or (d) a loop that, on every path to its back-edge, passes a *successful*
// call to a token-consuming function. Token consumption is summarised bottom-up
// (coinductively over the reader's recursion): a function is consuming when
// every success return is dominated by a consume whose success is established.

import (
	"fmt"
	"go/constant"
	"go/token"
	"go/types"
	"sort"
	"strings"

	"golang.org/x/tools/go/ssa"
)

type progress struct {
	w         *World
	e         *Engine
	consuming map[*ssa.Function]bool
}

// primitiveConsume: a store that advances an integer field by a positive constant (tokenReader.position).
func primitiveConsume(in ssa.Instruction) bool {
	st, ok := in.(*ssa.Store)
	if !ok {
		return false
	}
	fa, ok := st.Addr.(*ssa.FieldAddr)
	if !ok {
		return false
	}
	bo, ok := st.Val.(*ssa.BinOp)
	if !ok || bo.Op != token.ADD {
		return false
	}
	c, ok := bo.Y.(*ssa.Const)
	if !ok || c.Value == nil || constant.Sign(c.Value) <= 0 {
		return false
	}
	ld, ok := bo.X.(*ssa.UnOp)
	if !ok || ld.Op != token.MUL {
		return false
	}
	fa2, ok := ld.X.(*ssa.FieldAddr)
	return ok && fa2.Field == fa.Field && structField(fa2.X.Type(), fa2.Field) == structField(fa.X.Type(), fa.Field)
}

func hasErrorResult(fn *ssa.Function) int {
	res := fn.Signature.Results()
	if res.Len() >= 1 && types.Identical(res.At(res.Len()-1).Type(), types.Universe.Lookup("error").Type()) {
		return res.Len() - 1
	}
	return -1
}

// successAt: is the success of call c established in block b?
//   - callee with an error result: nil(err) holds in b
//   - callee returning a pointer (next): nonnil(result) holds in b
func (p *progress) successAt(c *ssa.Call, b *ssa.BasicBlock) bool {
	callee := c.Call.StaticCallee()
	if callee == nil {
		return false
	}
	if ei := hasErrorResult(callee); ei >= 0 {
		for _, ref := range *c.Referrers() {
			if ex, ok := ref.(*ssa.Extract); ok && ex.Index == ei {
				k := p.e.keyOf(ex).String()
				for _, f := range p.e.holding(b).list() {
					if f.Kind == "nil" && f.K.String() == k {
						return true
					}
				}
			}
		}
		if callee.Signature.Results().Len() == 1 {
			k := p.e.keyOf(c).String()
			for _, f := range p.e.holding(b).list() {
				if f.Kind == "nil" && f.K.String() == k {
					return true
				}
			}
		}
		return false
	}
	return p.e.nonNilFact(c, b)
}

// coveredBlock: block b is dominated by a consume (primitive store, or successful call of a consuming function).
// `within` restricts the dominating instruction to blocks dominated by it (loop header) when non-nil.
func (p *progress) coveredBlock(b *ssa.BasicBlock, within *ssa.BasicBlock, assume map[*ssa.Function]bool) (bool, string) {
	fn := b.Parent()
	for _, d := range fn.Blocks {
		if !d.Dominates(b) {
			continue
		}
		if within != nil && !(within.Dominates(d)) {
			continue
		}
		for _, in := range d.Instrs {
			if primitiveConsume(in) {
				return true, "advances " + p.w.pos(in.Pos())
			}
			c, ok := in.(*ssa.Call)
			if !ok {
				continue
			}
			callee := c.Call.StaticCallee()
			if callee == nil || !assume[callee] {
				continue
			}
			if p.successAt(c, b) {
				return true, "successful call of " + callee.Name() + " at " + p.w.pos(c.Pos())
			}
		}
	}
	return false, ""
}

// isConsuming checks fn under the assumption set.
func (p *progress) isConsuming(fn *ssa.Function, assume map[*ssa.Function]bool) (bool, string) {
	ei := hasErrorResult(fn)
	for _, b := range fn.Blocks {
		if len(b.Instrs) == 0 {
			continue
		}
		ret, ok := b.Instrs[len(b.Instrs)-1].(*ssa.Return)
		if !ok {
			continue
		}
		// failure returns need no consume
		if ei >= 0 && ei < len(ret.Results) {
			ev := ret.Results[ei]
			if !isNilConst(ev) {
				// `return g(...)` tail call: success of fn is success of g
				if ex, ok := ev.(*ssa.Extract); ok {
					if c, ok := ex.Tuple.(*ssa.Call); ok {
						if callee := c.Call.StaticCallee(); callee != nil && assume[callee] {
							continue
						}
					}
				}
				if _, isCall := ev.(*ssa.Call); isCall || p.e.nonNilFact(ev, b) {
					continue // error constructed here / known non-nil: failure return
				}
				if _, isMI := ev.(*ssa.MakeInterface); isMI {
					continue
				}
				// error value of unknown nil-ness that is not a tail call: treat as possible success
			}
		} else if ei < 0 {
			if len(ret.Results) == 1 && isNilConst(ret.Results[0]) {
				continue // pointer-returning primitive: nil is the failure
			}
		}
		if ok, _ := p.coveredBlock(b, nil, assume); !ok {
			return false, "success return at " + p.w.pos(ret.Pos()) + " is not dominated by a successful consume"
		}
	}
	return true, ""
}

func (p *progress) solve(cands []*ssa.Function) {
	assume := map[*ssa.Function]bool{}
	for _, f := range cands {
		assume[f] = true
	}
	for changed := true; changed; {
		changed = false
		for _, f := range cands {
			if !assume[f] {
				continue
			}
			if ok, _ := p.isConsuming(f, assume); !ok {
				delete(assume, f)
				changed = true
			}
		}
	}
	p.consuming = assume
}

type natLoop struct {
	header *ssa.BasicBlock
	backs  []*ssa.BasicBlock
}

func naturalLoops(fn *ssa.Function) []natLoop {
	m := map[*ssa.BasicBlock]*natLoop{}
	var order []*ssa.BasicBlock
	for _, b := range fn.Blocks {
		for _, s := range b.Succs {
			if s.Dominates(b) {
				if m[s] == nil {
					m[s] = &natLoop{header: s}
					order = append(order, s)
				}
				m[s].backs = append(m[s].backs, b)
			}
		}
	}
	var out []natLoop
	for _, h := range order {
		out = append(out, *m[h])
	}
	return out
}

// loopBlocks: blocks of the natural loop (header + everything that reaches a back-edge source without passing the header).
func loopBlocks(l natLoop) map[*ssa.BasicBlock]bool {
	in := map[*ssa.BasicBlock]bool{l.header: true}
	var stack []*ssa.BasicBlock
	for _, b := range l.backs {
		if !in[b] {
			in[b] = true
			stack = append(stack, b)
		}
	}
	for len(stack) > 0 {
		b := stack[len(stack)-1]
		stack = stack[:len(stack)-1]
		for _, p := range b.Preds {
			if !in[p] {
				in[p] = true
				stack = append(stack, p)
			}
		}
	}
	return in
}

// classifyLoop returns (class, detail); class "" means unclassified.
func (p *progress) classifyLoop(l natLoop) (string, string) {
	h := l.header
	blocks := loopBlocks(l)
	// range over map / string / channel: driven by a Next instruction on a finite iterator
	for b := range blocks {
		for _, in := range b.Instrs {
			if _, ok := in.(*ssa.Next); ok {
				return "range", "range over a finite map/string iterator"
			}
		}
	}
	// counted loop: an integer phi at the header stepping by a non-zero constant on every back-edge,
	// and an exit test inside the loop that mentions the counter
	for _, in := range h.Instrs {
		phi, ok := in.(*ssa.Phi)
		if !ok {
			break
		}
		if !isIntType(phi.Type()) {
			continue
		}
		self := p.e.keyOf(phi).String()
		step := int64(0)
		okStep := true
		for i, op := range phi.Edges {
			if !blocks[h.Preds[i]] {
				continue // entry edge
			}
			t, off, ok := p.e.linOf(op)
			if !ok || t.Kind != 2 || t.K.String() != self || off == 0 || (step != 0 && (off > 0) != (step > 0)) {
				okStep = false
				break
			}
			step = off
		}
		if !okStep || step == 0 {
			continue
		}
		// exit test mentioning the counter
		for b := range blocks {
			if len(b.Instrs) == 0 {
				continue
			}
			iff, ok := b.Instrs[len(b.Instrs)-1].(*ssa.If)
			if !ok {
				continue
			}
			exits := !blocks[b.Succs[0]] || !blocks[b.Succs[1]]
			if !exits {
				continue
			}
			if bo, ok := iff.Cond.(*ssa.BinOp); ok {
				for _, side := range []ssa.Value{bo.X, bo.Y} {
					if t, _, ok := p.e.linOf(side); ok && t.Kind == 2 && t.K.String() == self {
						other := bo.Y
						if side == bo.Y {
							other = bo.X
						}
						if loopInvariant(other, blocks) {
							return "counted", "counter " + phi.Comment + " steps by a constant towards a loop-invariant bound"
						}
					}
				}
			}
		}
	}
	// scanner-driven loop: the loop variable is recomputed by (*scanner.Scanner).Scan on every back-edge
	for _, in := range h.Instrs {
		phi, ok := in.(*ssa.Phi)
		if !ok {
			break
		}
		all := true
		n := 0
		for i, op := range phi.Edges {
			if !blocks[h.Preds[i]] {
				continue
			}
			n++
			c, ok := op.(*ssa.Call)
			if !ok {
				all = false
				break
			}
			callee := c.Call.StaticCallee()
			if callee == nil || callee.Name() != "Scan" || callee.Pkg == nil || !strings.HasSuffix(callee.Pkg.Pkg.Path(), "scanner") {
				all = false
			}
		}
		if all && n > 0 {
			return "scanner", "driven by the trusted scanner's Scan (consumes at least one rune or returns EOF)"
		}
	}
	// the same loop written without a loop variable: every lap passes a call of Scan
	isScan := func(b *ssa.BasicBlock) bool {
		for _, in := range b.Instrs {
			if c, ok := in.(*ssa.Call); ok {
				if callee := c.Call.StaticCallee(); callee != nil && callee.Name() == "Scan" && callee.Pkg != nil && strings.HasSuffix(callee.Pkg.Pkg.Path(), "scanner") {
					return true
				}
			}
		}
		return false
	}
	// ... and the loop is left when Scan reports the end of the text: a branch on a comparison of a Scan result
	// with a constant has a successor outside the loop
	exitsAtEOF := false
	for b := range blocks {
		iff := blockIf(b)
		if iff == nil {
			continue
		}
		bo, ok := iff.Cond.(*ssa.BinOp)
		if !ok || (bo.Op != token.EQL && bo.Op != token.NEQ) {
			continue
		}
		if _, isK := bo.Y.(*ssa.Const); !isK {
			continue
		}
		fromScan := false
		switch x := bo.X.(type) {
		case *ssa.Call:
			fromScan = isScan(x.Block()) && x.Call.StaticCallee() != nil && x.Call.StaticCallee().Name() == "Scan"
		case *ssa.Phi:
			for _, op := range x.Edges {
				if c, ok := op.(*ssa.Call); ok && c.Call.StaticCallee() != nil && c.Call.StaticCallee().Name() == "Scan" {
					fromScan = true
				}
			}
		}
		if fromScan && (!blocks[b.Succs[0]] || !blocks[b.Succs[1]]) {
			exitsAtEOF = true
		}
	}
	if exitsAtEOF && everyLapPasses(l, isScan) {
		return "scanner", "every lap calls the trusted scanner's Scan (consumes at least one rune or returns EOF) and the loop is left on its end-of-text result"
	}
	// cut loop: a string phi is replaced on every back-edge by the `after` part of strings.Cut of itself
	for _, in := range h.Instrs {
		phi, ok := in.(*ssa.Phi)
		if !ok {
			break
		}
		if b, ok := phi.Type().Underlying().(*types.Basic); !ok || b.Info()&types.IsString == 0 {
			continue
		}
		all, n := true, 0
		var cut *ssa.Call
		for i, op := range phi.Edges {
			if !blocks[h.Preds[i]] {
				continue
			}
			n++
			ex, ok := op.(*ssa.Extract)
			if !ok || ex.Index != 1 {
				all = false
				break
			}
			c, ok := ex.Tuple.(*ssa.Call)
			if !ok {
				all = false
				break
			}
			callee := c.Call.StaticCallee()
			if callee == nil || callee.Pkg == nil || callee.Pkg.Pkg.Path() != "strings" || callee.Name() != "Cut" || c.Call.Args[0] != ssa.Value(phi) {
				all = false
				break
			}
			sep, ok := c.Call.Args[1].(*ssa.Const)
			if !ok || sep.Value == nil || constant.StringVal(sep.Value) == "" {
				all = false
				break
			}
			cut = c
		}
		if !all || n == 0 || cut == nil {
			continue
		}
		// the loop must leave when the `before` part is empty
		var before ssa.Value
		for _, ref := range *cut.Referrers() {
			if ex, ok := ref.(*ssa.Extract); ok && ex.Index == 0 {
				before = ex
			}
		}
		if before == nil {
			continue
		}
		derived := map[string]bool{p.e.keyOf(before).String(): true}
		for _, ref := range *before.Referrers() {
			if c, ok := ref.(*ssa.Call); ok {
				if callee := c.Call.StaticCallee(); callee != nil && callee.Pkg != nil && callee.Pkg.Pkg.Path() == "strings" && strings.HasPrefix(callee.Name(), "Trim") {
					derived[p.e.keyOf(c).String()] = true
				}
			}
		}
		for b := range blocks {
			if len(b.Instrs) == 0 {
				continue
			}
			iff, ok := b.Instrs[len(b.Instrs)-1].(*ssa.If)
			if !ok {
				continue
			}
			for i := 0; i < 2; i++ {
				if blocks[b.Succs[i]] {
					continue
				}
				// exit edge: does it fire when len(derived) == 0 ?
				for _, f := range p.e.condFacts(iff.Cond, i == 0).list() {
					if f.Kind == "le" && f.A.Kind == 1 && derived[f.A.K.String()] && f.B.Kind == 0 && f.C == 0 {
						return "cut", "input string replaced by the remainder of strings.Cut on every iteration; leaves when the cut line is empty"
					}
				}
			}
		}
	}
	// progress loop: every back-edge source is dominated, inside the loop, by a successful consume
	okAll := true
	detail := ""
	for _, b := range l.backs {
		ok, why := p.coveredBlock(b, h, p.consuming)
		if !ok {
			okAll = false
			break
		}
		detail = why
	}
	if okAll {
		return "progress", "every path to the back-edge passes a " + detail
	}
	return "", ""
}

func loopInvariant(v ssa.Value, blocks map[*ssa.BasicBlock]bool) bool {
	switch x := v.(type) {
	case *ssa.Const, *ssa.Parameter, *ssa.FreeVar:
		return true
	case *ssa.Call:
		if b, ok := x.Call.Value.(*ssa.Builtin); ok && b.Name() == "len" {
			return loopInvariant(x.Call.Args[0], blocks)
		}
		return !blocks[x.Block()]
	case *ssa.BinOp:
		return loopInvariant(x.X, blocks) && loopInvariant(x.Y, blocks)
	case *ssa.UnOp:
		if !blocks[x.Block()] {
			return true
		}
		// a read of a local variable (or of a field of a local struct) that nothing assigns inside the loop
		if x.Op == token.MUL {
			var al *ssa.Alloc
			switch a := x.X.(type) {
			case *ssa.Alloc:
				al = a
			case *ssa.FieldAddr:
				al, _ = a.X.(*ssa.Alloc)
			}
			if al != nil && !writtenInLoop(al, blocks) {
				return true
			}
		}
		return false
	case ssa.Instruction:
		return !blocks[x.Block()]
	}
	return false
}

// writtenInLoop: the local variable (or one of its fields) is assigned inside the loop, or its address is
// handed to other code.
func writtenInLoop(al *ssa.Alloc, blocks map[*ssa.BasicBlock]bool) bool {
	for _, ref := range *al.Referrers() {
		switch u := ref.(type) {
		case *ssa.Store:
			if u.Addr == ssa.Value(al) && blocks[u.Block()] {
				return true
			}
			if u.Val == ssa.Value(al) {
				return true // address stored somewhere
			}
		case *ssa.FieldAddr:
			for _, r2 := range *u.Referrers() {
				switch u2 := r2.(type) {
				case *ssa.Store:
					if u2.Addr == ssa.Value(u) && blocks[u2.Block()] {
						return true
					}
				case *ssa.UnOp, *ssa.DebugRef:
				default:
					return true
				}
			}
		case *ssa.UnOp, *ssa.DebugRef:
		default:
			return true // address escapes (call argument, closure capture …)
		}
	}
	return false
}

// progressRule is C05.progress.
func progressRule(w *World, r *Report, e *Engine) {
	r.rule("C05.progress", "every loop in the reader/printer closure is a counted or range loop, is driven by the trusted scanner, shortens its input with strings.Cut, or passes a successful token-consuming call on every path to its back-edge; the reader's recursive functions consume a token on every successful return (so recursion is well-founded)")
	p := &progress{w: w, e: e}
	var cands []*ssa.Function
	for _, fn := range w.Funcs {
		if fnPkgPath(fn) == modPath+"/reader" && !isTestFunc(w, fn) {
			cands = append(cands, fn)
		}
	}
	p.solve(cands)
	// the reader functions that recurse must all be consuming
	// (every parsing function of the reader - token reader in, error out - and the accessor that advances the cursor)
	var must []*ssa.Function
	for _, fn := range w.pkgFuncs("reader") {
		if isReaderFn(fn) {
			must = append(must, fn)
		}
	}
	if next, _ := w.tokenAccessors(); next != nil {
		must = append(must, next)
	} else {
		r.undecided("C05.progress", nil, "consume summary of the token accessor", token.NoPos, "the method of the token reader that advances the cursor no longer resolves")
	}
	nm := 0
	for _, fn := range must {
		nm++
		if p.consuming[fn] {
			r.ok("C05.progress", fn, "consume summary", fn.Pos(), "every successful return is dominated by a successful consume")
		} else {
			// not an obligation in itself: what has to hold is that loops and recursion make progress (below);
			// a helper that only looks ahead is fine as long as no loop or cycle relies on it
			_, why := p.isConsuming(fn, p.consuming)
			r.add("C05.progress", fn, "consume summary", fn.Pos(), "info", "not consuming ("+why+"): loops and recursion cycles through it are checked without relying on it")
		}
	}
	// recursion: on every cycle of calls among the reader's parsing functions a token is consumed between
	// entering a function and the call that continues the cycle. A call site has consumed when a consume
	// dominates it: the cursor store itself, a successful call of a consuming function, or a call of the
	// advancing accessor after the non-advancing one was seen to return a token.
	{
		nextFn, peekFn := w.tokenAccessors()
		inSet := map[*ssa.Function]bool{}
		for _, fn := range w.pkgFuncs("reader") {
			if fn != nextFn && fn != peekFn && fn.Parent() == nil && hasParam(fn, "reader.tokenReader") {
				inSet[fn] = true
			}
		}
		consumedBefore := func(c *ssa.Call) bool {
			b := c.Block()
			fn := b.Parent()
			for _, d := range fn.Blocks {
				if d != b && !d.Dominates(b) {
					continue
				}
				for _, in := range d.Instrs {
					if in == ssa.Instruction(c) {
						break
					}
					if primitiveConsume(in) {
						return true
					}
					cc, ok := in.(*ssa.Call)
					if !ok || cc.Call.StaticCallee() == nil {
						continue
					}
					callee := cc.Call.StaticCallee()
					if callee == nextFn {
						// the advancing accessor, where a token is known to be there
						if p.e.nonNilFact(cc, b) {
							return true
						}
						// ... also when every caller of this function has looked (a helper of the dispatcher
						// that is only called for a token the dispatcher peeked)
						if sites := p.e.callSites(fn); len(sites) > 0 {
							all := true
							for _, cs := range sites {
								peeked := false
								for _, pd := range cs.Parent().Blocks {
									if pd != cs.Block() && !pd.Dominates(cs.Block()) {
										continue
									}
									for _, pin := range pd.Instrs {
										if pc, ok := pin.(*ssa.Call); ok && pc.Call.StaticCallee() == peekFn && p.e.nonNilFact(pc, cs.Block()) {
											peeked = true
										}
									}
								}
								all = all && peeked
							}
							if all {
								return true
							}
						}
						for _, pd := range fn.Blocks {
							if pd != d && !pd.Dominates(d) {
								continue
							}
							for _, pin := range pd.Instrs {
								if pc, ok := pin.(*ssa.Call); ok && pc.Call.StaticCallee() == peekFn && p.e.nonNilFact(pc, d) {
									return true
								}
							}
						}
						continue
					}
					if p.consuming[callee] && d != b && p.successAt(cc, b) {
						return true
					}
				}
			}
			return false
		}
		free := map[*ssa.Function][]*ssa.Function{} // calls made before anything was consumed
		where := map[[2]*ssa.Function]token.Pos{}
		nEdges := 0
		for fn := range inSet {
			for _, b := range fn.Blocks {
				for _, in := range b.Instrs {
					c, ok := in.(*ssa.Call)
					if !ok || !inSet[c.Call.StaticCallee()] {
						continue
					}
					nEdges++
					if !consumedBefore(c) {
						free[fn] = append(free[fn], c.Call.StaticCallee())
						where[[2]*ssa.Function{fn, c.Call.StaticCallee()}] = c.Pos()
					}
				}
			}
		}
		// a cycle among the calls made without consuming
		state := map[*ssa.Function]int{}
		var cyc []*ssa.Function
		var dfs func(f *ssa.Function, path []*ssa.Function) bool
		dfs = func(f *ssa.Function, path []*ssa.Function) bool {
			state[f] = 1
			for _, g := range free[f] {
				if state[g] == 1 {
					cyc = append(append([]*ssa.Function{}, path...), f, g)
					return true
				}
				if state[g] == 0 && dfs(g, append(path, f)) {
					return true
				}
			}
			state[f] = 2
			return false
		}
		var fns []*ssa.Function
		for fn := range inSet {
			fns = append(fns, fn)
		}
		sort.Slice(fns, func(i, j int) bool { return fns[i].Name() < fns[j].Name() })
		found := false
		for _, fn := range fns {
			if state[fn] == 0 && dfs(fn, nil) {
				found = true
				break
			}
		}
		if found {
			var names []string
			for _, f := range cyc {
				names = append(names, f.Name())
			}
			last := cyc[len(cyc)-2]
			r.bad("C05.progress", last, "recursion among the parsing functions", where[[2]*ssa.Function{last, cyc[len(cyc)-1]}], "the calls "+strings.Join(names, " -> ")+" form a cycle on which no token is consumed: the reader can recurse without end on some text")
		} else {
			r.ok("C05.progress", nil, "recursion among the parsing functions", token.NoPos, fmt.Sprintf("%d calls among %d parsing functions; the calls made before a token is consumed form no cycle", nEdges, len(inSet)))
		}
	}
	// loops
	nl := 0
	inScope := func(fn *ssa.Function) bool {
		switch fnPkgPath(fn) {
		case modPath + "/reader", modPath + "/printer", modPath + "/lisperror":
			return true
		case modPath:
			n := fn.Name()
			return n == "READ" || n == "READWithPreamble" || n == "AddPreamble" || n == "PRINT"
		case modPath + "/types":
			n := fn.Name()
			return n == "NewHashMap" || n == "NewSet" || n == "GetSlice" || fn.Signature.Recv() != nil
		}
		return false
	}
	for _, fn := range w.Funcs {
		if isTestFunc(w, fn) || !inScope(fn) {
			continue
		}
		for _, l := range naturalLoops(fn) {
			nl++
			class, detail := p.classifyLoop(l)
			pos := token.NoPos
			for _, in := range l.header.Instrs {
				if in.Pos().IsValid() {
					pos = in.Pos()
					break
				}
			}
			if !pos.IsValid() {
				for _, b := range l.backs {
					for _, in := range b.Instrs {
						if in.Pos().IsValid() {
							pos = in.Pos()
						}
					}
				}
			}
			construct := "loop " + l.header.Comment
			if class == "" {
				r.bad("C05.progress", fn, construct, pos, "loop is neither counted, range, scanner-driven, input-cutting nor token-consuming on every path to its back-edge")
			} else {
				r.ok("C05.progress", fn, construct, pos, class+": "+detail)
			}
		}
	}
	r.floor("C05.progress", "consume summaries", nm, 9)
	r.floor("C05.progress", "loops in the reader/printer closure", nl, 8)
	r.Assumptions = append(r.Assumptions, "the printer's mutual recursion (Pr_str, Pr_list, hashMapToString) is structural recursion over acyclic values")
}
