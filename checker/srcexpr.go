package main

import (
	"go/ast"
	"go/token"
	"go/types"

	"golang.org/x/tools/go/ssa"
)

// srcExpr returns the source text of the expression an instruction arose from,
// located by the token position go/ssa records for it (Lparen of a type
// assertion, Lbrack of an index or slice expression, ...). Empty if not found.
func (w *World) srcExpr(in ssa.Instruction) string {
	p := in.Pos()
	if !p.IsValid() {
		return ""
	}
	if w.exprAt == nil {
		w.exprAt = map[token.Pos]ast.Expr{}
		for _, pkg := range w.Pkgs {
			for _, f := range pkg.Syntax {
				ast.Inspect(f, func(n ast.Node) bool {
					switch x := n.(type) {
					case *ast.TypeAssertExpr:
						w.exprAt[x.Lparen] = x
					case *ast.IndexExpr:
						w.exprAt[x.Lbrack] = x
					case *ast.SliceExpr:
						w.exprAt[x.Lbrack] = x
					case *ast.CallExpr:
						if _, dup := w.exprAt[x.Lparen]; !dup {
							w.exprAt[x.Lparen] = x
						}
					case *ast.SelectorExpr:
						if _, dup := w.exprAt[x.Sel.Pos()]; !dup {
							w.exprAt[x.Sel.Pos()] = x
						}
					case *ast.StarExpr:
						w.exprAt[x.Star] = x
					}
					return true
				})
			}
		}
	}
	if e, ok := w.exprAt[p]; ok {
		return types.ExprString(e)
	}
	return ""
}

// blankResult: the source assigns result number idx of this call to the blank identifier (`v, _ := f()`).
func (w *World) blankResult(c *ssa.Call, idx int) bool {
	if w.assignAt == nil {
		w.assignAt = map[token.Pos]*ast.AssignStmt{}
		for _, pkg := range w.Pkgs {
			for _, f := range pkg.Syntax {
				ast.Inspect(f, func(n ast.Node) bool {
					if as, ok := n.(*ast.AssignStmt); ok && len(as.Rhs) == 1 {
						if ce, ok := ast.Unparen(as.Rhs[0]).(*ast.CallExpr); ok {
							w.assignAt[ce.Lparen] = as
						}
					}
					return true
				})
			}
		}
	}
	as, ok := w.assignAt[c.Pos()]
	if !ok || idx >= len(as.Lhs) {
		return false
	}
	id, ok := as.Lhs[idx].(*ast.Ident)
	return ok && id.Name == "_"
}
