package main

import (
	"fmt"
	"go/constant"
	"go/token"
	"go/types"
	"sort"
	"strings"

	"golang.org/x/tools/go/ssa"
)

func init() {
	register("C01", checkC01)
	register("C03", checkC03)
	register("C08", checkC08)
	register("C12", checkC12)
	register("C18", checkC18)
	register("C07", checkC07)
}

func needModel(w *World, r *Report, rule string) (*evalModel, *Engine) {
	e := newEngine(w)
	m := newEvalModel(w, e)
	if !m.ok {
		r.undecided(rule, nil, "evaluator model", token.NoPos, m.why)
		return nil, e
	}
	r.Notes = append(r.Notes, "special-form regions found in EVAL: "+strings.Join(m.regionNames, ", "))
	return m, e
}

// evaluator functions and their closures
func (m *evalModel) evalFuncs() []*ssa.Function {
	var out []*ssa.Function
	for _, f := range []*ssa.Function{m.EVAL, m.evalAst, m.doFn, m.macroexpand} {
		out = append(out, f)
		out = append(out, allAnon(f)...)
	}
	for _, h := range m.stepHelpers {
		out = append(out, h)
		out = append(out, allAnon(h)...)
	}
	for _, h := range m.helpers {
		out = append(out, h)
		out = append(out, allAnon(h)...)
	}
	seen := map[*ssa.Function]bool{}
	uniq := out[:0]
	for _, f := range out {
		if !seen[f] {
			seen[f] = true
			uniq = append(uniq, f)
		}
	}
	return uniq
}

// thinWrapper: an evaluation helper that does nothing but make one evaluating call with its own parameters
// (or the variables it captures) as arguments and hand back that call's results: `evalIn := func(form MalType)
// (MalType, error) { return EVAL(ctx, form, env) }`. A call of it is the evaluating call it contains, made at
// the call site with the arguments put in for the parameters.
func (m *evalModel) thinWrapper(h *ssa.Function) *ssa.Call {
	if _, isHelper := m.helperSites[h]; !isHelper || len(h.Blocks) == 0 || len(h.Blocks) > 2 {
		return nil
	}
	if v, ok := m.thin[h]; ok {
		return v
	}
	if m.thin == nil {
		m.thin = map[*ssa.Function]*ssa.Call{}
	}
	m.thin[h] = nil
	var inner *ssa.Call
	for _, b := range h.Blocks {
		for _, in := range b.Instrs {
			switch x := in.(type) {
			case *ssa.Call:
				switch x.Call.StaticCallee() {
				case m.EVAL, m.evalAst, m.doFn, m.macroexpand:
					if inner != nil {
						return nil
					}
					inner = x
				default:
					return nil // anything else it calls makes it more than a wrapper
				}
			case *ssa.Store, *ssa.MapUpdate, *ssa.Defer, *ssa.Go, *ssa.Send, *ssa.MakeClosure:
				return nil
			}
		}
	}
	if inner == nil {
		return nil
	}
	for _, a := range inner.Call.Args {
		switch x := a.(type) {
		case *ssa.Parameter, *ssa.Const:
		case *ssa.UnOp:
			if _, isFree := x.X.(*ssa.FreeVar); !isFree || x.Op != token.MUL {
				return nil
			}
		default:
			return nil
		}
	}
	for _, b := range h.Blocks {
		ret, ok := b.Instrs[len(b.Instrs)-1].(*ssa.Return)
		if !ok || b == h.Recover {
			continue
		}
		if len(ret.Results) == 1 && ret.Results[0] == ssa.Value(inner) {
			continue
		}
		for i, rv := range ret.Results {
			ex, ok := rv.(*ssa.Extract)
			if !ok || ex.Tuple != ssa.Value(inner) || ex.Index != i {
				return nil
			}
		}
	}
	m.thin[h] = inner
	return inner
}

// evalCalls: calls, inside the evaluator functions, of functions that evaluate (or expand) a form.
type evalCall struct {
	fn     *ssa.Function
	call   *ssa.Call
	callee *ssa.Function
	ast    ssa.Value
	env    ssa.Value
	ctx    ssa.Value
}

func (m *evalModel) evalCalls() []evalCall {
	var out []evalCall
	for _, fn := range m.evalFuncs() {
		if m.thinWrapper(fn) != nil {
			continue // represented by its call sites
		}
		for _, b := range fn.Blocks {
			for _, in := range b.Instrs {
				c, ok := in.(*ssa.Call)
				if !ok {
					continue
				}
				callee := c.Call.StaticCallee()
				args := c.Call.Args
				if inner := m.thinWrapper(callee); inner != nil {
					// the call the wrapper makes, with this call's arguments put in for the wrapper's parameters
					args = nil
					for _, a := range inner.Call.Args {
						if p, isP := a.(*ssa.Parameter); isP {
							for i, q := range callee.Params {
								if q == p && i < len(c.Call.Args) {
									a = c.Call.Args[i]
								}
							}
						}
						args = append(args, a)
					}
					callee = inner.Call.StaticCallee()
				}
				switch callee {
				case m.EVAL, m.evalAst, m.doFn, m.macroexpand:
				default:
					continue
				}
				ec := evalCall{fn: fn, call: c, callee: callee}
				for i, p := range callee.Params {
					switch {
					case isContext(p.Type()):
						ec.ctx = args[i]
					case isMalType(p.Type()) && ec.ast == nil:
						ec.ast = args[i]
					case strings.HasSuffix(p.Type().String(), "types.EnvType"):
						ec.env = args[i]
					}
				}
				out = append(out, ec)
			}
		}
	}
	return out
}

// ruleOnce: only forms are evaluated; values never flow back into the evaluator.
func ruleOnce(m *evalModel, r *Report, rule string) {
	cl := m.classifier()
	n := 0
	for _, ec := range m.evalCalls() {
		n++
		k := cl.of(ec.ast)
		construct := "form argument of " + ec.callee.Name() + "(" + describeVal(m.e, ec.ast, 0) + ") in " + nz(m.regionOf(ec.call.Block()), "-")
		switch k {
		case clsForm, clsNil:
			r.ok(rule, ec.fn, construct, ec.call.Pos(), "classified "+k.String()+": derived from the incoming form by projection, quasiquote or macro expansion")
		default:
			r.bad(rule, ec.fn, construct, ec.call.Pos(), "classified "+k.String()+": the result of an evaluation can reach the evaluator again (evaluated twice)")
		}
	}
	// the loop-carried form
	nextVals, nextFrom := m.nextForms()
	for i, op := range nextVals {
		pred := nextFrom[i]
		n++
		k := cl.of(op)
		construct := "next form of the evaluation loop from " + nz(m.regionOf(pred), "block "+pred.Comment) + " (" + describeVal(m.e, op, 0) + ")"
		if k == clsForm {
			r.ok(rule, m.EVAL, construct, instrPos(pred.Instrs[len(pred.Instrs)-1]), "a form")
		} else {
			r.bad(rule, m.EVAL, construct, instrPos(pred.Instrs[len(pred.Instrs)-1]), "classified "+k.String()+": a value is fed back into the loop and evaluated a second time")
		}
	}
	r.floor(rule, "evaluating calls and loop continuations", n, 10)
}

func nz(s, d string) string {
	if s == "" {
		return d
	}
	return s
}

// stepperGuarded: block dominated by Stepper != nil
func (m *evalModel) stepperGuarded(b *ssa.BasicBlock) bool {
	stepper := m.w.SPkg[modPath].Members["Stepper"]
	for _, f := range m.e.holding(b).list() {
		if f.Kind == "nonnil" && f.K.Root == nil && stepper != nil && f.K.Glob == stepper.Name() && f.K.Path == "" {
			return true
		}
	}
	return false
}

// returnsOfEVAL: (return, resolved result 0, resolved result 1)
func (m *evalModel) returns(fn *ssa.Function) [][3]interface{} {
	var out [][3]interface{}
	for _, b := range fn.Blocks {
		if len(b.Instrs) == 0 || b == fn.Recover {
			continue
		}
		if ret, ok := b.Instrs[len(b.Instrs)-1].(*ssa.Return); ok && len(ret.Results) >= 1 {
			var r1 ssa.Value
			if len(ret.Results) > 1 {
				r1 = resolveRet(ret.Results[1])
			}
			out = append(out, [3]interface{}{ret, resolveRet(ret.Results[0]), r1})
		}
	}
	return out
}

// producingCall: the evaluating call whose result v is (through extracts/phis), if any.
func (m *evalModel) producingCalls(v ssa.Value, seen map[ssa.Value]bool) []*ssa.Call {
	if seen[v] {
		return nil
	}
	seen[v] = true
	switch x := v.(type) {
	case *ssa.Extract:
		if c, ok := x.Tuple.(*ssa.Call); ok {
			return []*ssa.Call{c}
		}
	case *ssa.Call:
		return []*ssa.Call{x}
	case *ssa.Phi:
		var out []*ssa.Call
		for _, op := range x.Edges {
			out = append(out, m.producingCalls(op, seen)...)
		}
		return out
	// a part of what a call returned (an element of the list of evaluated forms, say) is as much the result
	// of that call as the whole
	case *ssa.TypeAssert:
		return m.producingCalls(x.X, seen)
	case *ssa.MakeInterface:
		return m.producingCalls(x.X, seen)
	case *ssa.ChangeInterface:
		return m.producingCalls(x.X, seen)
	case *ssa.Field:
		return m.producingCalls(x.X, seen)
	case *ssa.Index:
		return m.producingCalls(x.X, seen)
	case *ssa.Lookup:
		return m.producingCalls(x.X, seen)
	case *ssa.UnOp:
		if x.Op == token.MUL {
			if ia, ok := x.X.(*ssa.IndexAddr); ok {
				return m.producingCalls(ia.X, seen)
			}
		}
	}
	return nil
}

// ruleTail (C08): EVAL never returns the result of an evaluating call, except
//   - eval_ast on a form known not to be a list (symbols, literals, vectors, maps: their elements are not in tail position)
//   - the try form's body value and a builtin's result (neither is a tail position of the language)
//   - macroexpand / quasiquoteexpand results (not evaluated)
//   - the stepping-mode continuation, dominated by Stepper != nil
func ruleTail(m *evalModel, r *Report, rule string) {
	n := 0
	listT := m.w.ByPath[modPath+"/types"].Types.Scope().Lookup("List").Type()
	for _, rt := range m.returns(m.EVAL) {
		ret, v0 := rt[0].(*ssa.Return), rt[1].(ssa.Value)
		for _, c := range m.producingCalls(v0, map[ssa.Value]bool{}) {
			callee := c.Call.StaticCallee()
			region := nz(m.regionOf(c.Block()), "-")
			construct := "return of " + describeCall(m.e, c, 0) + " in " + region
			switch {
			case callee == m.evalAst:
				n++
				if len(c.Call.Args) > 1 && m.e.notType(c.Call.Args[1], listT, c.Block()) {
					r.ok(rule, m.EVAL, construct, ret.Pos(), "form is known not to be a list: no tail position involved")
				} else {
					r.bad(rule, m.EVAL, construct, ret.Pos(), "a list form is evaluated by recursion and its value returned: tail calls would consume host stack")
				}
			case callee == m.EVAL:
				n++
				if m.stepperGuarded(c.Block()) {
					r.ok(rule, m.EVAL, construct, ret.Pos(), "stepping-mode continuation, dominated by Stepper != nil")
				} else {
					r.bad(rule, m.EVAL, construct, ret.Pos(), "tail position evaluated by recursion instead of continuing the loop")
				}
			case callee == m.doFn || callee == m.apply:
				n++
				r.bad(rule, m.EVAL, construct, ret.Pos(), "the value of a body/application is computed by recursion and returned")
			case callee == m.macroexpand || callee == m.quasiquote:
				n++
				r.ok(rule, m.EVAL, construct, ret.Pos(), "expansion returned unevaluated")
			case callee != nil && callee.Parent() == m.EVAL && !m.evalRelevant(callee, map[*ssa.Function]bool{}):
				// a function literal that evaluates nothing (it builds an error, say): no tail position involved
			case callee != nil && callee.Parent() == m.EVAL:
				n++
				if region == "try" {
					r.ok(rule, m.EVAL, construct, ret.Pos(), "value of the try body (not a tail position)")
				} else {
					r.bad(rule, m.EVAL, construct, ret.Pos(), "closure result returned outside the try form")
				}
			case callee == nil && !c.Call.IsInvoke() && types.Identical(c.Call.Value.Type().Underlying(), m.EVAL.Signature):
				// a function value of the evaluator's own type (the evaluator a closure carries): a nested evaluation
				n++
				r.bad(rule, m.EVAL, construct, ret.Pos(), "a form is handed to an evaluator held in a function value and its value returned: the tail position is evaluated by recursion, one host frame per iteration")
			case callee == nil && !c.Call.IsInvoke():
				n++
				if region == "<application>" || region == "try" {
					r.ok(rule, m.EVAL, construct, ret.Pos(), "result of a Go builtin / the try body runner")
				} else {
					r.bad(rule, m.EVAL, construct, ret.Pos(), "function value called and returned in a tail region")
				}
			}
		}
	}
	// every tail region hands its tail form to the loop: it has an edge to the loop header (directly or through the stepper test)
	for _, name := range []string{"let", "do", "if", "quasiquote"} {
		reg, ok := m.regions[name]
		if !ok {
			r.undecided(rule, m.EVAL, "tail region "+name, token.NoPos, "special form not found in the dispatch")
			continue
		}
		n++
		r.check(m.reachesHeader(reg), rule, m.EVAL, "tail region "+name+" continues the loop", token.NoPos, "control returns to the loop header with the tail form", "region never returns to the loop header: its tail form is not evaluated by iteration")
	}
	n++
	r.check(m.reachesHeader(m.defaultRegion), rule, m.EVAL, "closure application continues the loop", token.NoPos, "control returns to the loop header with the closure body", "application never returns to the loop header")
	r.floor(rule, "returns of evaluating calls and tail regions", n, 9)
}

func (m *evalModel) reachesHeader(reg map[*ssa.BasicBlock]bool) bool {
	seen := map[*ssa.BasicBlock]bool{}
	var stack []*ssa.BasicBlock
	for b := range reg {
		stack = append(stack, b)
	}
	for len(stack) > 0 {
		b := stack[len(stack)-1]
		stack = stack[:len(stack)-1]
		if seen[b] {
			continue
		}
		seen[b] = true
		for _, s := range b.Succs {
			if s == m.header {
				return true
			}
			if !reg[s] && !m.isLoopBottom(s) {
				continue
			}
			stack = append(stack, s)
		}
	}
	return false
}

// isLoopBottom: the merge block after the dispatch that tests Stepper and jumps back to the header.
func (m *evalModel) isLoopBottom(b *ssa.BasicBlock) bool {
	for _, s := range b.Succs {
		if s == m.header {
			return true
		}
	}
	return false
}

// ---------------------------------------------------------------------------
// scope rules (analysis D)

type scopeKind int

const (
	scUnknown scopeKind = iota
	scCurrent
	scFreshChild   // NewSubordinateEnv(current) or NewSubordinateEnvWithBinds(current, ...)
	scClosureChild // NewSubordinateEnvWithBinds(fn.Env, fn.Params, args)
)

func (k scopeKind) String() string {
	return [...]string{"unknown", "current scope", "fresh child of the current scope", "fresh child of the closure's defining scope"}[k]
}

func (m *evalModel) scopeKindOf(v ssa.Value) (scopeKind, *ssa.Call) {
	if m.isCurrentScope(v) {
		return scCurrent, nil
	}
	var call *ssa.Call
	switch x := v.(type) {
	case *ssa.Call:
		call = x
	case *ssa.Extract:
		if c, ok := x.Tuple.(*ssa.Call); ok && x.Index == 0 {
			call = c
		}
		// one of several results of a function of the evaluator's package that evaluates nothing: the scope it
		// hands back for a closure (nil where it fails)
		if c, ok := x.Tuple.(*ssa.Call); ok && x.Index > 0 && c.Call.StaticCallee() != nil && (m.formSplitter(c.Call.StaticCallee()) || m.helperOf(c.Call.StaticCallee()) != nil) {
			kind, n := scUnknown, 0
			for _, rt := range m.allReturns(c.Call.StaticCallee()) {
				if x.Index >= len(rt) {
					return scUnknown, nil
				}
				v := rt[x.Index]
				if isNilConst(v) {
					continue
				}
				k, _ := m.scopeKindOf(v)
				if (k != scClosureChild && k != scFreshChild) || (n > 0 && k != kind) {
					return scUnknown, nil
				}
				kind = k
				n++
			}
			if n > 0 {
				return kind, c
			}
		}
	case *ssa.Parameter:
		// a scope parameter of an evaluation helper stands for the arguments at its call sites
		if args := m.argsFor(x); len(args) > 0 {
			kind, first := scUnknown, true
			var c0 *ssa.Call
			for _, a := range args {
				k, c := m.scopeKindOf(a)
				if first {
					kind, c0, first = k, c, false
				} else if k != kind {
					return scUnknown, nil
				}
			}
			return kind, c0
		}
		// scope parameters of the named evaluator functions (eval_ast, do, macroexpand) and of the finally closure are "current" for their body
		if strings.HasSuffix(x.Type().String(), "types.EnvType") {
			return scCurrent, nil
		}
	case *ssa.UnOp:
		if fv, ok := x.X.(*ssa.FreeVar); ok && cellOf(fv) == m.envCell && m.envCell != nil {
			return scCurrent, nil
		}
	}
	if call == nil {
		return scUnknown, nil
	}
	callee := call.Call.StaticCallee()
	if callee != m.newSub && callee != m.newSubBinds {
		// an evaluation helper that returns a child scope it created from one of its parameters
		if callee != nil {
			if idx, ok := m.returnsChildOfParam(callee); ok && idx < len(call.Call.Args) {
				return m.childKind(call.Call.Args[idx], call)
			}
		}
		return scUnknown, nil
	}
	parent := call.Call.Args[0]
	// inside a helper, the parent may be the helper's scope parameter
	if p, ok := parent.(*ssa.Parameter); ok && m.helperOf(p.Parent()) != nil {
		if k, _ := m.scopeKindOf(p); k == scCurrent {
			return scFreshChild, call
		}
	}
	if m.isCurrentScope(parent) {
		return scFreshChild, call
	}
	// fn.Env
	if f, ok := parent.(*ssa.Field); ok && fieldName(f.X.Type(), f.Field) == "Env" {
		return scClosureChild, call
	}
	if ld, ok := parent.(*ssa.UnOp); ok {
		if fa, ok := ld.X.(*ssa.FieldAddr); ok && fieldName(fa.X.Type(), fa.Field) == "Env" {
			return scClosureChild, call
		}
	}
	return scUnknown, call
}

// ruleScope: C01.scope / C03.catch-scope / C11.local
func ruleScope(m *evalModel, r *Report, rule string) {
	n := 0
	// 1. every evaluating call in EVAL receives the scope the definition prescribes for its region
	want := map[string]scopeKind{"def": scCurrent, "defmacro": scCurrent, "if": scCurrent, "do": scCurrent, "macroexpand": scCurrent, "<application>": scCurrent, "-": scCurrent, "": scCurrent}
	for _, ec := range m.evalCalls() {
		if ec.fn != m.EVAL && m.helperOf(ec.fn) == nil {
			continue
		}
		region := m.regionOf(ec.call.Block())
		if ec.fn != m.EVAL && region == "" {
			continue // a helper shared by several regions: its call sites are checked, its parameter is whatever they pass
		}
		k, _ := m.scopeKindOf(ec.env)
		construct := "scope of " + ec.callee.Name() + "(" + describeVal(m.e, ec.ast, 0) + ") in " + nz(region, "-")
		n++
		switch region {
		case "let":
			r.check(k == scFreshChild, rule, ec.fn, construct, ec.call.Pos(), k.String()+": binding values and body see the earlier bindings", "let evaluates in "+k.String()+" instead of its own child scope")
		case "try":
			// the handler body: fresh child; the try body and finally (evaluate-all mode of the body helper) run in the current scope
			if ec.callee == m.doFn && ec.fn != m.EVAL && doMode(ec.call) == "all" {
				r.check(k == scCurrent, rule, ec.fn, construct, ec.call.Pos(), "try body evaluated in the "+k.String(), "try body evaluated in "+k.String())
				break
			}
			r.check(k == scFreshChild, rule, ec.fn, construct, ec.call.Pos(), "handler evaluated in a "+k.String(), "catch handler evaluated in "+k.String())
		default:
			w, ok := want[region]
			if !ok {
				w = scCurrent
			}
			if m.stepBlocks[ec.call.Block()] && region == "" {
				w = scCurrent
			}
			r.check(k == w, rule, m.EVAL, construct, ec.call.Pos(), k.String(), "evaluated in "+k.String()+", the definition prescribes the "+w.String())
		}
	}
	// 2. stores to the scope cell: let -> its child; catch -> handler child; application -> closure child
	for _, st := range m.scopeSwitches() {
		n++
		region := m.regionOf(st.block)
		k, _ := m.scopeKindOf(st.val)
		construct := "scope for the next iteration set in " + nz(region, "-")
		switch region {
		case "let", "try":
			r.check(k == scFreshChild, rule, m.EVAL, construct, st.pos, k.String(), "the loop continues in "+k.String())
		case "<application>":
			r.check(k == scClosureChild, rule, m.EVAL, construct, st.pos, "lexical scoping: "+k.String(), "closure body evaluated in "+k.String()+" instead of a child of its defining scope (dynamic scoping)")
		default:
			r.bad(rule, m.EVAL, construct, st.pos, "the scope is replaced in a region that must not change it")
		}
	}
	// 3. Apply (application outside the loop) builds the callee scope from f.Env
	for _, b := range m.apply.Blocks {
		for _, in := range b.Instrs {
			ci, ok := in.(ssa.CallInstruction)
			if !ok || ci.Common().StaticCallee() != nil || ci.Common().IsInvoke() {
				continue
			}
			ld, ok := ci.Common().Value.(*ssa.UnOp)
			if !ok {
				continue
			}
			fa, ok := ld.X.(*ssa.FieldAddr)
			if !ok || fieldName(fa.X.Type(), fa.Field) != "GenEnv" {
				continue
			}
			n++
			okEnv := false
			if a0, ok := ci.Common().Args[0].(*ssa.UnOp); ok {
				if fa0, ok := a0.X.(*ssa.FieldAddr); ok && fieldName(fa0.X.Type(), fa0.Field) == "Env" {
					okEnv = true
				}
			}
			r.check(okEnv, rule, m.apply, "scope built by Apply", in.Pos(), "child of the closure's defining scope (f.Env)", "Apply does not build the callee scope from the closure's defining scope")
		}
	}
	// 3b. every evaluation Apply starts (through the function's Eval field) runs in the scope GenEnv built
	for _, b := range m.apply.Blocks {
		for _, in := range b.Instrs {
			ci, ok := in.(ssa.CallInstruction)
			if !ok || ci.Common().StaticCallee() != nil || ci.Common().IsInvoke() {
				continue
			}
			ld, ok := ci.Common().Value.(*ssa.UnOp)
			if !ok {
				continue
			}
			fa, ok := ld.X.(*ssa.FieldAddr)
			if !ok || fieldName(fa.X.Type(), fa.Field) != "Eval" {
				continue
			}
			n++
			okEnv := false
			for _, a := range ci.Common().Args {
				if !strings.HasSuffix(a.Type().String(), "types.EnvType") {
					continue
				}
				if ex, ok := a.(*ssa.Extract); ok && ex.Index == 0 {
					if gc, ok := ex.Tuple.(*ssa.Call); ok {
						if gl, ok := gc.Call.Value.(*ssa.UnOp); ok {
							if gfa, ok := gl.X.(*ssa.FieldAddr); ok && fieldName(gfa.X.Type(), gfa.Field) == "GenEnv" {
								okEnv = true
							}
						}
					}
				}
			}
			r.check(okEnv, rule, m.apply, "scope of the body evaluated by Apply", in.Pos(), "the scope GenEnv just created for this call", "Apply evaluates a function body in a scope that was not created for this call (the closure's defining scope itself): definitions made by the body land in a scope shared with other calls and evaluations")
		}
	}
	// 3c. a child scope is linked to exactly the scope it was created from
	if w := m.w; w != nil {
		for _, fn := range w.pkgFuncs("env") {
			for _, b := range fn.Blocks {
				for _, in := range b.Instrs {
					st, ok := in.(*ssa.Store)
					if !ok {
						continue
					}
					fa, ok := st.Addr.(*ssa.FieldAddr)
					if !ok || fieldName(fa.X.Type(), fa.Field) != w.roles().envOuter {
						continue
					}
					n++
					_, isParam := st.Val.(*ssa.Parameter)
					r.check(isParam || isNilConst(st.Val), rule, fn, "outer scope of a new scope", st.Pos(), "the scope passed by the creator", "the new scope is not linked to the scope it was created from ("+describeVal(m.e, st.Val, 0)+"): scopes in between are skipped, so bindings made in them later are invisible to closures created here")
				}
			}
		}
	}
	// 4. who writes: Set/SetNT/Update/Remove/RemoveNT on a scope that is not fresh only in def and defmacro
	for _, fn := range m.evalFuncs() {
		for _, b := range fn.Blocks {
			for _, in := range b.Instrs {
				ci, ok := in.(ssa.CallInstruction)
				if !ok || !ci.Common().IsInvoke() {
					continue
				}
				switch ci.Common().Method.Name() {
				case "Set", "SetNT", "Update", "Remove", "RemoveNT":
				default:
					continue
				}
				if !strings.HasSuffix(ci.Common().Value.Type().String(), "types.EnvType") {
					continue
				}
				n++
				region := m.regionOf(b)
				k, _ := m.scopeKindOf(ci.Common().Value)
				construct := ci.Common().Method.Name() + " on " + describeVal(m.e, ci.Common().Value, 0) + " in " + nz(region, "-")
				switch {
				case k == scFreshChild:
					r.ok(rule, fn, construct, in.Pos(), "binding written into a scope created in this region")
				case k == scCurrent && onlyDefRegions(m.regionSet(b)) && (fn == m.EVAL || m.helperOf(fn) != nil):
					r.ok(rule, fn, construct, in.Pos(), "def binds in the current scope")
				default:
					r.bad(rule, fn, construct, in.Pos(), "binding written into "+k.String()+" outside def/defmacro: local names become visible to other evaluations / outer code")
				}
			}
		}
	}
	// 5. exactly one child scope per let
	if _, ok := m.regions["let"]; ok {
		cnt := 0
		fns := []*ssa.Function{m.EVAL}
		for _, h := range m.helpers {
			fns = append(fns, h)
			fns = append(fns, allAnon(h)...)
		}
		for _, fn := range fns {
			for _, b := range fn.Blocks {
				if m.regionOf(b) != "let" {
					continue
				}
				for _, in := range b.Instrs {
					if c, ok := in.(*ssa.Call); ok && (c.Call.StaticCallee() == m.newSub || c.Call.StaticCallee() == m.newSubBinds) {
						cnt++
						n++
						k, _ := m.scopeKindOf(c)
						uncond := edgeDominatesRegionEntry(m, "let", b)
						if fn != m.EVAL {
							// in a helper: at the helper's entry, and the helper is called at the region's entry
							uncond = b == fn.Blocks[0] && fn.Parent() == nil
							for _, lb := range m.liftBlock(b, 0) {
								if !edgeDominatesRegionEntry(m, "let", lb) {
									uncond = false
								}
							}
						}
						r.check(k == scFreshChild && uncond, rule, fn, "child scope of let", c.Pos(), "created unconditionally from the current scope", "let's scope is not an unconditional fresh child of the current scope")
					}
				}
			}
		}
		r.check(cnt == 1, rule, m.EVAL, "number of scopes created by let", token.NoPos, "exactly one", fmt.Sprintf("%d scopes created", cnt))
	}
	r.floor(rule, "scope-carrying call sites, scope switches and binding writes", n, 12)
}

// edgeDominatesRegionEntry: block b is executed on every path through the region (it is the region's entry block or dominates ... we
// approximate: b is the region's entry block, i.e. the target of the dispatch's true edge).
func edgeDominatesRegionEntry(m *evalModel, name string, b *ssa.BasicBlock) bool {
	for _, d := range m.EVAL.Blocks {
		iff := blockIf(d)
		if iff == nil {
			continue
		}
		if x, s, ok := strEq(iff.Cond); ok && x == m.dispatch && s == name {
			return d.Succs[0] == b
		}
	}
	return false
}

// ---------------------------------------------------------------------------
// C01

func checkC01(w *World, r *Report) {
	m, e := needModel(w, r, "C01.once")
	if m == nil {
		return
	}
	r.rule("C01.once", "only forms are evaluated: the result of an evaluating call (EVAL, eval_ast, Apply, a builtin, the body helper in evaluate-all mode) never flows into the form argument of an evaluating call or into the loop-carried form (each argument and body form is evaluated exactly once)")
	r.rule("C01.scope", "each evaluating call receives the scope the definition prescribes: def/if/do/application operands the current scope; let binding values and body one unconditional fresh child; closure bodies a child of the closure's defining scope (lexical scoping), also in types.Apply; catch handlers a fresh child; bindings are written into non-fresh scopes only by def and defmacro")
	macroNeededRule(w, r, "C01.header-values")
	scopeNewRule(w, r, "C01.scope-new")
	r.rule("C01.lookup-order", "in every Env lookup the outer scope is consulted only on the not-found edge of the lookup in the receiver's own map (innermost binding wins)")
	r.rule("C01.order", "sequences are evaluated by ascending range/counted loops with exactly one evaluating call per element whose result is appended in order; the application region evaluates the whole call form with a single eval_ast call (operator first, then operands left to right)")
	r.rule("C01.falsy", "the if region contains exactly one evaluating call (the condition); its result is used only in equality comparisons whose other operands are exactly nil and false; the then-form flows to the loop only when both comparisons failed, the else-form (or nil) otherwise")
	r.rule("C01.def", "def evaluates its value operand once in the current scope, binds it with Set on the current scope under the symbol operand and returns Set's result; Env.Set/SetNT return the value they were given")
	r.rule("C01.body", "the body helper is called with (from,to) = (1,-1) for do, (2,-1) for let, (0,0) for the try body and finally, (0,-1) for the catch handler; fn wraps Val[2:] in a do form and captures the current scope and the parameter operand")
	r.rule("C01.binds", "the parameter binder tests for & before binding positionally, binds the rest list from the same index, and returns an error both when arguments run out and when arguments are left over")
	ruleOnce(m, r, "C01.once")
	ruleScope(m, r, "C01.scope")
	ruleLookupOrder(w, r, e)
	ruleOrder(m, r)
	ruleFalsy(m, r)
	ruleDef(m, r)
	ruleBody(m, r)
	ruleBinds(w, r, e)
	r.rule("C01.builtin-errors", "a builtin called outside its domain (wrong count or kind of arguments) yields an error at that point of the evaluation, not a host panic: every adapter the binder registers starts with a deferred function that calls recover() itself (shared with C03.panic-conversion / C20.siblings)")
	{
		nad := 0
		extSigT := w.ByPath[modPath+"/types"].Types.Scope().Lookup("ExternalCall")
		for _, f := range w.addrTaken() {
			if extSigT == nil || fnPkgPath(f) != modPath+"/lib/call" || !sameParamsResults(f.Signature, extSigT.Type().Underlying().(*types.Signature)) || isTestFunc(w, f) {
				continue
			}
			nad++
			_, ok := w.barrierOf(f)
			r.check(ok, "C01.builtin-errors", f, "binder adapter", f.Pos(), "defer of a function that calls recover() directly", "the deferred function does not call recover() itself (recover only works in the deferred function's own frame): the panic raised by the argument check escapes EVAL instead of becoming the prescribed error")
		}
		r.floor("C01.builtin-errors", "binder adapters", nad, 2)
	}
	// "builtin calls": the builtin receives exactly the evaluated arguments and its result is the call's value
	r.include("C01.builtin-call-", "C20.", "a builtin call yields the builtin's result for exactly the evaluated arguments (nil as nil), or the error it returned", checkC20, func(rule string) bool {
		switch rule {
		case "C20.nil-arg", "C20.siblings", "C20.results", "C20.verbatim":
			return true
		}
		return false
	})
	// "an error exactly where the definition prescribes one": let, apply and the sequence builtins decide what
	// is a sequence through one accessor
	r.include("C01.builtin-domain-", "C13.", "the binding list of let and the sequence arguments of apply, map, cons, concat are lists or vectors: the accessor they are recognised by fails for everything else", checkC13, func(rule string) bool {
		return rule == "C13.seq-accessor" || rule == "C13.index-as-given" || rule == "C13.range-error"
	})
	// = is the builtin programs (and the test for what a program yields) compare values with
	r.include("C01.builtin-equal-", "C14.", "the = builtin compares every element of two sequences, and a difference anywhere makes them unequal", checkC14, func(rule string) bool {
		return rule == "C14.all-elements" || rule == "C14.entry"
	})
	applyArgsRule(w, r, e, "C01.apply-args")
	dispatchRules(m, r, "C01")
	r.rule("C01.no-mutation", "evaluation never writes into a form or into a value it was given: the evaluator, the binder and the builtins write only into storage allocated in the same activation, and storage handed to a call inside a loop is not written again on the next iteration (a literal evaluated twice, or the rest list of an earlier call, would otherwise change; shared with C02.write)")
	nmu := ruleContainerWrites(w, r, e, "C01.no-mutation", func(fn *ssa.Function) bool { return runtimePkg(fnPkgPath(fn)) }, false)
	r.floor("C01.no-mutation", "container write sites in the library", nmu, 40)
	r.Assumptions = append(r.Assumptions, "values computed by builtins, exact error messages and error positions are not decided; any semantic change that keeps all of these shapes (for instance + implemented as -) is invisible to this check")
}

func ruleLookupOrder(w *World, r *Report, e *Engine) {
	n := 0
	for _, name := range []string{"(*Env).GetNT", "(*Env).FindNT"} {
		fn := w.Fn("env", name)
		if fn == nil {
			r.undecided("C01.lookup-order", nil, name, token.NoPos, "method no longer resolves")
			continue
		}
		// (an exported method that only forwards to an unexported one of the same receiver is that method)
		fn = forwardTarget(fn)
		// the comma-ok lookup in the receiver's own map
		var okVal ssa.Value
		ownPresence := func(g *ssa.Function) (ssa.Value, bool) {
			for _, b := range g.Blocks {
				for _, in := range b.Instrs {
					if lk, ok := in.(*ssa.Lookup); ok && lk.CommaOk {
						if ld, ok := lk.X.(*ssa.UnOp); ok {
							if fa, ok := ld.X.(*ssa.FieldAddr); ok && len(g.Params) > 0 && fa.X == ssa.Value(g.Params[0]) {
								for _, ref := range *lk.Referrers() {
									if ex, ok := ref.(*ssa.Extract); ok && ex.Index == 1 {
										return ex, true
									}
								}
							}
						}
					}
				}
			}
			return nil, false
		}
		if v, ok := ownPresence(fn); ok {
			okVal = v
		} else {
			// ... or a helper on the same receiver that does the lookup and hands back the presence flag
			for _, b := range fn.Blocks {
				for _, in := range b.Instrs {
					c, ok := in.(*ssa.Call)
					if !ok || c.Call.StaticCallee() == nil || len(c.Call.Args) == 0 || c.Call.Args[0] != ssa.Value(fn.Params[0]) {
						continue
					}
					g := c.Call.StaticCallee()
					if g.Pkg != fn.Pkg || len(g.Blocks) == 0 {
						continue
					}
					pv, ok := ownPresence(g)
					if !ok {
						continue
					}
					for _, rt := range (&evalModel{}).returns(g) {
						ret := rt[0].(*ssa.Return)
						for ri, rv := range ret.Results {
							if resolveRet(rv) != pv {
								continue
							}
							if len(ret.Results) == 1 {
								okVal = c
							} else if ex := extractOf(c, ri); ex != nil {
								okVal = ex
							}
						}
					}
				}
			}
		}
		if okVal == nil {
			r.bad("C01.lookup-order", fn, "own-map lookup", fn.Pos(), "no comma-ok lookup in the receiver's own map")
			continue
		}
		for _, b := range fn.Blocks {
			for _, in := range b.Instrs {
				ci, ok := in.(ssa.CallInstruction)
				if !ok || len(ci.Common().Args) == 0 {
					continue
				}
				// calls whose receiver is e.outer - or a method of the same scope that makes that call (the ascent
				// written as a function of its own: findInOuter, getFromOuter)
				recv := ci.Common().Args[0]
				isAscent := false
				if ld, ok := recv.(*ssa.UnOp); ok {
					if fa, ok := ld.X.(*ssa.FieldAddr); ok && fieldName(fa.X.Type(), fa.Field) == w.roles().envOuter {
						isAscent = true
					}
				}
				if h := ci.Common().StaticCallee(); !isAscent && h != nil && h.Pkg == fn.Pkg && h != fn && len(h.Blocks) > 0 && recv == ssa.Value(fn.Params[0]) {
					if _, own := ownPresence(h); !own {
						for _, hb := range h.Blocks {
							for _, hin := range hb.Instrs {
								hc, ok := hin.(ssa.CallInstruction)
								if !ok || len(hc.Common().Args) == 0 {
									continue
								}
								if ld, ok := hc.Common().Args[0].(*ssa.UnOp); ok {
									if fa, ok := ld.X.(*ssa.FieldAddr); ok && fieldName(fa.X.Type(), fa.Field) == w.roles().envOuter && len(h.Params) > 0 && fa.X == ssa.Value(h.Params[0]) {
										isAscent = true
									}
								}
							}
						}
					}
				}
				if !isAscent {
					continue
				}
				n++
				// dominated by the false edge of okVal
				dominated := false
				for _, d := range fn.Blocks {
					if iff := blockIf(d); iff != nil && iff.Cond == okVal && edgeDominates(d, 1, b) {
						dominated = true
					}
				}
				r.check(dominated, "C01.lookup-order", fn, "ascent to the outer scope", in.Pos(), "only on the not-found edge of the own-map lookup", "the outer scope is consulted although the name may be bound here: an outer binding could shadow an inner one")
			}
		}
		// found edge returns the own value / own scope
	}
	r.floor("C01.lookup-order", "ascents to the outer scope", n, 2)
	// looking a name up changes no scope
	setTotalRule(w, r, e, "C01.set-total")
	// "evaluation stops at the first form that fails": a builtin or evaluator function that has bound the error of
	// a callee answers success only behind the test that found it nil
	droppedErrorRule(w, r, "C01.errors-surface")
	// what a form evaluates to is decided by the form and its scope: the evaluator keeps no counters, tables or
	// caches of its own between (or across) evaluations
	sharedStateRule(w, r, "C01.no-process-state", "")
	loaderKeepsHeaderRule(w, r, "C01.header-intact")
	if mm := newEvalModel(w, e); mm.ok {
		expansionOnlyRule(w, r, mm, "C01.expansion-only")
	}
	r.rule("C01.lookup-pure", "looking a name up (Get, GetNT, Find, FindNT and whatever they call in package env) writes no scope: no store to a field of an Env and no write into a scope's table, so a binding found through an enclosing scope is found there again, with its current value, on the next lookup (a copy kept in the inner scope would shadow a later def)")
	np, nlk := 0, 0
	seen := map[*ssa.Function]bool{}
	var work []*ssa.Function
	for _, name := range []string{"(*Env).Get", "(*Env).GetNT", "(*Env).Find", "(*Env).FindNT"} {
		if fn := w.Fn("env", name); fn != nil {
			work = append(work, fn)
		} else {
			r.undecided("C01.lookup-pure", nil, name, token.NoPos, "method no longer resolves")
		}
	}
	isEnvPtr := func(t types.Type) bool {
		if p, ok := t.Underlying().(*types.Pointer); ok {
			if nt, ok := p.Elem().(*types.Named); ok {
				return nt.Obj().Name() == "Env" && nt.Obj().Pkg() != nil && nt.Obj().Pkg().Path() == modPath+"/env"
			}
		}
		return false
	}
	for len(work) > 0 {
		fn := work[len(work)-1]
		work = work[:len(work)-1]
		if seen[fn] || len(fn.Blocks) == 0 {
			continue
		}
		seen[fn] = true
		for _, b := range fn.Blocks {
			for _, in := range b.Instrs {
				switch x := in.(type) {
				case ssa.CallInstruction:
					if sc := x.Common().StaticCallee(); sc != nil && fnPkgPath(sc) == modPath+"/env" {
						work = append(work, sc)
					}
					if bi, ok := x.Common().Value.(*ssa.Builtin); ok && bi.Name() == "delete" {
						if ld, ok := x.Common().Args[0].(*ssa.UnOp); ok {
							if fa, ok := ld.X.(*ssa.FieldAddr); ok && isEnvPtr(fa.X.Type()) {
								np++
								r.bad("C01.lookup-pure", fn, "delete from a scope's table during a lookup", in.Pos(), "a lookup removes a binding: the next lookup of that name gives a different answer")
							}
						}
					}
				case *ssa.Lookup:
					// presence, not the value, decides whether a scope binds the name (nil is a value)
					if ld, ok := x.X.(*ssa.UnOp); ok {
						if fa, ok := ld.X.(*ssa.FieldAddr); ok && isEnvPtr(fa.X.Type()) {
							nlk++
							// a lookup shared by several lookup functions counts once for each of them
							if k := len(e.callSites(fn)); k > 1 && !e.escapedFn(fn) {
								nlk += k - 1
							}
							r.check(x.CommaOk, "C01.lookup-order", fn, "lookup of a name in a scope's table", x.Pos(), "comma-ok: presence decides", "a scope's table is indexed without testing presence: a name bound to nil in an enclosing scope counts as unbound there, so the search goes on to an outer binding (or ends in 'not found') although the innermost binding wins")
						}
					}
				case *ssa.MapUpdate:
					if ld, ok := x.Map.(*ssa.UnOp); ok {
						if fa, ok := ld.X.(*ssa.FieldAddr); ok && isEnvPtr(fa.X.Type()) {
							np++
							r.bad("C01.lookup-pure", fn, "write into a scope's table during a lookup", x.Pos(), "a lookup binds a name in the scope it started from: the copy shadows the enclosing binding, so a later def of that name in the enclosing scope is not seen by closures over this scope (innermost binding wins)")
						}
					}
				case *ssa.Store:
					if fa, ok := x.Addr.(*ssa.FieldAddr); ok && isEnvPtr(fa.X.Type()) {
						if _, fresh := fa.X.(*ssa.Alloc); !fresh {
							np++
							r.bad("C01.lookup-pure", fn, "store to a field of a scope during a lookup", x.Pos(), "a lookup rewrites the scope (its table or its link to the enclosing scope)")
						}
					}
				}
			}
		}
	}
	r.add("C01.lookup-pure", nil, "functions reachable from the lookup entry points in package env", token.NoPos, "ok", fmt.Sprintf("%d functions examined, %d writes found", len(seen), np))
	r.floor("C01.lookup-pure", "functions reachable from the lookup entry points", len(seen), 4)
	r.floor("C01.lookup-order", "lookups of a name in a scope's table", nlk, 2)
}

// ruleOrder: evaluation loops of eval_ast
func ruleOrder(m *evalModel, r *Report) {
	n := 0
	// eval_ast and the helpers only it calls (a shared element loop extracted into a function)
	type loopIn struct {
		fn    *ssa.Function
		l     natLoop
		sites int
	}
	var loops []loopIn
	for _, l := range naturalLoops(m.evalAst) {
		loops = append(loops, loopIn{m.evalAst, l, 1})
	}
	for _, h := range m.helpers {
		only := len(m.helperSites[h]) > 0
		for _, s := range m.helperSites[h] {
			if s.Parent() != m.evalAst {
				only = false
			}
		}
		if only {
			for _, l := range naturalLoops(h) {
				loops = append(loops, loopIn{h, l, len(m.helperSites[h])})
			}
		}
	}
	for _, li := range loops {
		l, inFn := li.l, li.fn
		blocks := loopBlocks(l)
		var calls []*ssa.Call
		for b := range blocks {
			for _, in := range b.Instrs {
				if c, ok := in.(*ssa.Call); ok && c.Call.StaticCallee() == m.EVAL {
					calls = append(calls, c)
				}
			}
		}
		if len(calls) == 0 {
			continue
		}
		n += li.sites
		pos := calls[0].Pos()
		isMapRange := false
		for b := range blocks {
			for _, in := range b.Instrs {
				if _, ok := in.(*ssa.Next); ok {
					isMapRange = true
				}
			}
		}
		if !r.check(len(calls) == 1, "C01.order", inFn, "evaluating calls per element", pos, "exactly one", fmt.Sprintf("%d evaluating calls in one iteration", len(calls))) {
			continue
		}
		c := calls[0]
		res := extractOf(c, 0)
		if isMapRange {
			// map literal: order irrelevant; the value evaluated is the map's element and is stored under the same key
			stored := false
			for b := range blocks {
				for _, in := range b.Instrs {
					if mu, ok := in.(*ssa.MapUpdate); ok && res != nil && mu.Value == ssa.Value(res) {
						stored = true
					}
				}
			}
			r.check(stored, "C01.order", inFn, "map literal: evaluated value stored", pos, "stored under the iteration's key", "the evaluated value is not what is stored in the result map")
			continue
		}
		// ascending index loop over the form's elements
		class, _ := (&progress{w: m.w, e: m.e}).classifyLoop(l)
		asc := false
		for _, in := range l.header.Instrs {
			if phi, ok := in.(*ssa.Phi); ok && isIntType(phi.Type()) {
				for i, op := range phi.Edges {
					if blocks[l.header.Preds[i]] {
						if _, off, ok := m.e.linOf(op); ok && off > 0 {
							asc = true
						}
					}
				}
			}
		}
		r.check(class == "counted" && asc, "C01.order", inFn, "element loop direction", pos, "ascending counted/range loop", "elements are not visited left to right by a counted loop")
		// the element evaluated is the loop's current element; the result is appended to the accumulator
		elemOK := false
		if ld, ok := c.Call.Args[1].(*ssa.UnOp); ok {
			if ia, ok := ld.X.(*ssa.IndexAddr); ok {
				if t, off, ok := m.e.linOf(ia.Index); ok && t.Kind == 2 {
					_ = off
					elemOK = true
				}
			}
		}
		r.check(elemOK, "C01.order", inFn, "element evaluated", pos, "the element at the loop index", "the form evaluated is not the element at the loop index")
		appended := false
		for b := range blocks {
			for _, in := range b.Instrs {
				if ap, ok := in.(*ssa.Call); ok {
					if bi, ok := ap.Call.Value.(*ssa.Builtin); ok && bi.Name() == "append" && res != nil {
						// append(acc, [res]...) : the varargs array holds res
						if sl, ok := ap.Call.Args[1].(*ssa.Slice); ok {
							if al, ok := sl.X.(*ssa.Alloc); ok {
								for _, ref := range *al.Referrers() {
									if ia, ok := ref.(*ssa.IndexAddr); ok {
										for _, u := range *ia.Referrers() {
											if st, ok := u.(*ssa.Store); ok && st.Val == ssa.Value(res) {
												if _, isPhi := ap.Call.Args[0].(*ssa.Phi); isPhi {
													appended = true
												}
											}
										}
									}
								}
							}
						}
					}
				}
			}
		}
		r.check(appended, "C01.order", inFn, "result appended in order", pos, "appended to the loop-carried accumulator (one result per element, same order)", "the evaluated value is not appended to the result sequence: order or length of the result can differ from the form")
	}
	r.floor("C01.order", "evaluation loops of eval_ast (one per kind of sequence form)", n, 3)
	// a collection literal is evaluated element by element, whatever its elements look like: eval_ast hands its
	// form back as it is only where the form is known to be no list, vector or hash-map (a nested collection can
	// hold an expression although no direct element is a symbol or a list)
	{
		tsc := m.w.ByPath[modPath+"/types"].Types.Scope()
		var formP *ssa.Parameter
		if i := m.astParamIndex(m.evalAst); i >= 0 {
			formP = m.evalAst.Params[i]
		}
		nself := 0
		for _, rt := range m.returns(m.evalAst) {
			ret, v := rt[0].(*ssa.Return), rt[1].(ssa.Value)
			if formP == nil || unboxed(v) != ssa.Value(formP) {
				continue
			}
			nself++
			var open []string
			for _, kn := range []string{"List", "Vector", "HashMap"} {
				if o := tsc.Lookup(kn); o != nil && !m.e.notType(formP, o.Type(), ret.Block()) {
					open = append(open, kn)
				}
			}
			r.check(len(open) == 0, "C01.order", m.evalAst, "form handed back unevaluated", ret.Pos(), "known to be neither a list, a vector nor a hash-map", "eval_ast returns its form as its own value where the form can still be a "+strings.Join(open, " / ")+": the elements of such a literal (and the expressions nested in them) are not evaluated, their effects do not happen")
		}
		r.floor("C01.order", "returns of the form itself in eval_ast", nself, 1)
	}
	// application region: exactly one eval_ast on the call form itself, no other evaluating call
	cnt := 0
	var theCall *ssa.Call
	for _, ec := range m.evalCalls() {
		if ec.fn == m.EVAL && m.defaultRegion[ec.call.Block()] && !m.stepBlocks[ec.call.Block()] {
			cnt++
			theCall = ec.call
		}
	}
	okApp := cnt == 1 && theCall.Call.StaticCallee() == m.evalAst
	if okApp {
		// its form argument is the dispatched form itself (same value the dispatch projected the head from)
		arg := theCall.Call.Args[1]
		okApp = m.e.keyOf(arg).String() == m.formKey()
	}
	r.check(okApp, "C01.order", m.EVAL, "application evaluates the call form once", instrPosOr(theCall), "a single eval_ast over the whole form: operator, then operands left to right", "the call form is not evaluated by one left-to-right pass (operator and operands may be evaluated in another order, or twice)")
	// nothing is decided about a call before its form has been evaluated: every way out of the application
	// region comes after that one evaluation (an error raised earlier suppresses the operands' effects)
	if okApp {
		nex := 0
		for _, b := range m.EVAL.Blocks {
			if !m.defaultRegion[b] || m.stepBlocks[b] || len(b.Instrs) == 0 {
				continue
			}
			ret, ok := b.Instrs[len(b.Instrs)-1].(*ssa.Return)
			if !ok {
				continue
			}
			nex++
			after := theCall.Block() == b || theCall.Block().Dominates(b)
			r.check(after, "C01.order", m.EVAL, "exit of the application region", ret.Pos(), "after the call form was evaluated", "the application region is left before the call form has been evaluated: an ill-formed call is reported without evaluating its operands, whose effects (and errors) the definition prescribes first")
		}
		r.floor("C01.order", "exits of the application region", nex, 3)
	}
}

func instrPosOr(c *ssa.Call) token.Pos {
	if c == nil {
		return token.NoPos
	}
	return c.Pos()
}

// formKey: access path of the form being dispatched (the value whose .(List).Val[0] feeds the dispatch string).
func (m *evalModel) formKey() string {
	// dispatch = phi["__<*fn>__", sym.Val] ; sym = a0.(Symbol) ; a0 = form.(List).Val[0]
	var find func(v ssa.Value, depth int) string
	find = func(v ssa.Value, depth int) string {
		if depth > 8 {
			return ""
		}
		switch x := v.(type) {
		case *ssa.Phi:
			for _, op := range x.Edges {
				if s := find(op, depth+1); s != "" {
					return s
				}
			}
		case *ssa.Field:
			return find(x.X, depth+1)
		case *ssa.TypeAssert:
			k := m.e.keyOf(x.X)
			if strings.HasSuffix(k.Path, ".Val[0]") {
				p := strings.TrimSuffix(k.Path, ".Val[0]")
				if i := strings.LastIndex(p, ".("); i >= 0 {
					return Key{Root: k.Root, Glob: k.Glob, Path: p[:i]}.String()
				}
			}
		case *ssa.Call:
			// a function of the package that names the head it is handed (the symbol's name, or the marker)
			if head := headNameArg(x); head != nil {
				k := m.e.keyOf(head)
				if strings.HasSuffix(k.Path, ".Val[0]") {
					p := strings.TrimSuffix(k.Path, ".Val[0]")
					if i := strings.LastIndex(p, ".("); i >= 0 {
						return Key{Root: k.Root, Glob: k.Glob, Path: p[:i]}.String()
					}
				}
			}
		case *ssa.Extract:
			if ta, ok := x.Tuple.(*ssa.TypeAssert); ok {
				return find(ta, depth+1)
			}
		}
		return ""
	}
	return find(m.dispatch, 0)
}

func ruleFalsy(m *evalModel, r *Report) {
	reg, ok := m.regions["if"]
	if !ok {
		r.undecided("C01.falsy", m.EVAL, "if region", token.NoPos, "special form not found")
		return
	}
	var calls []evalCall
	for _, ec := range m.evalCalls() {
		if ec.fn == m.EVAL && reg[ec.call.Block()] {
			calls = append(calls, ec)
		}
	}
	if !r.check(len(calls) == 1 && calls[0].callee == m.EVAL, "C01.falsy", m.EVAL, "evaluating calls in the if region", token.NoPos, "exactly one (the condition)", fmt.Sprintf("%d evaluating calls: a branch is evaluated inside the region", len(calls))) {
		return
	}
	cond := extractOf(calls[0].call, 0)
	// condition operand is operand 1 of the form
	r.check(m.isOperand(calls[0].ast, 1), "C01.falsy", m.EVAL, "form evaluated as the condition", calls[0].call.Pos(), "operand 1", "the condition evaluated is not operand 1 of the form")
	// ... and it is evaluated whatever the branches are: nothing answers for the if form before the condition has
	// been evaluated (a branch that is the literal nil is a branch; only the number of operands could be a ground
	// to refuse the form, and the dispatch has fixed that before the arm)
	for b := range reg {
		if len(b.Instrs) == 0 {
			continue
		}
		if ret, isRet := b.Instrs[len(b.Instrs)-1].(*ssa.Return); isRet {
			cb := calls[0].call.Block()
			r.check(cb == b || cb.Dominates(b), "C01.falsy", m.EVAL, "answer of the if form", ret.Pos(), "given after the condition was evaluated", "the if form is answered on a path on which the condition is never evaluated: a form is refused (or valued) by looking at its branches, so (if c nil x) - a branch that is the literal nil - is no longer the form the definition describes")
		}
	}
	var cmps []*ssa.BinOp
	okUses := true
	for _, ref := range *cond.Referrers() {
		switch u := ref.(type) {
		case *ssa.BinOp:
			cmps = append(cmps, u)
		case *ssa.DebugRef:
		default:
			okUses = false
		}
	}
	r.check(okUses, "C01.falsy", m.EVAL, "uses of the condition's value", calls[0].call.Pos(), "only equality comparisons", "the condition's value is used for something other than comparisons with nil/false")
	kinds := map[string]bool{}
	for _, c := range cmps {
		other := c.Y
		if c.Y == ssa.Value(cond) {
			other = c.X
		}
		kind := "other"
		if isNilConst(other) {
			kind = "nil"
		} else if mi, ok := other.(*ssa.MakeInterface); ok {
			if k, ok := mi.X.(*ssa.Const); ok && k.Value != nil && k.Value.Kind() == constant.Bool && !constant.BoolVal(k.Value) {
				kind = "false"
			}
		}
		if c.Op != token.EQL && c.Op != token.NEQ {
			kind = "other"
		}
		kinds[kind] = true
	}
	r.check(kinds["nil"] && kinds["false"] && !kinds["other"] && len(cmps) == 2, "C01.falsy", m.EVAL, "constants the condition is compared with", calls[0].call.Pos(), "exactly nil and false", fmt.Sprintf("compared with %v: the set of falsy values is not {nil,false}", keysOf(kinds)))
	if len(cmps) != 2 {
		return
	}
	// Which exits of the region are taken for which kind of condition value is decided by evaluating the
	// region's control flow under each of the three kinds: nil, false, anything else.  The two comparisons
	// are the only inputs; boolean phis, negations and comparisons with constants are evaluated, any other
	// branch is followed both ways.
	n := 0
	kindsOfValue := []struct {
		name   string
		truthy bool
		val    func(c *ssa.BinOp) bool
	}{
		{"nil", false, func(c *ssa.BinOp) bool { return cmpKind(c, cond) == "nil" }},
		{"false", false, func(c *ssa.BinOp) bool { return cmpKind(c, cond) == "false" }},
		{"neither nil nor false", true, func(c *ssa.BinOp) bool { return false }},
	}
	type exitKey struct {
		pos  token.Pos
		what string
	}
	seen := map[exitKey]bool{}
	for _, kv := range kindsOfValue {
		assign := map[ssa.Value]bool{}
		for _, c := range cmps {
			eq := kv.val(c) // does "cond == constant" hold for this kind of value
			if c.Op == token.NEQ {
				eq = !eq
			}
			assign[c] = eq
		}
		for _, ex := range simulateRegion(calls[0].call.Block(), reg, assign) {
			if ex.ret != nil {
				res := ex.ret.Results
				if len(res) == 2 && !isNilConst(resolveRet(res[1])) {
					continue // error return
				}
				n++
				v0 := resolveRet(res[0])
				r.check(!kv.truthy && isNilConst(v0), "C01.falsy", m.EVAL, "if without else, condition "+kv.name, ex.ret.Pos(), "returns nil on the falsy path only", "the if region returns a non-nil value or returns when the condition is "+kv.name)
				continue
			}
			type contv struct {
				op     ssa.Value
				isLoop bool
			}
			var conts []contv
			for _, in := range ex.succ.Instrs {
				phi, ok := in.(*ssa.Phi)
				if !ok || !isMalType(phi.Type()) {
					continue
				}
				for i, op := range phi.Edges {
					if ex.succ.Preds[i] == ex.pred {
						conts = append(conts, contv{op, phi == m.astPhi})
					}
				}
			}
			if op := m.formLeaving(ex.pred); op != nil {
				conts = append(conts, contv{op, true}) // the form is kept in a cell: what the exit assigned to it
			}
			for _, cv := range conts {
				{
					op := cv.op
					key := m.e.keyOf(op).String()
					d := describeVal(m.e, op, 0)
					isOp2 := strings.HasSuffix(key, ".Val[2]") || d == "a2"
					isOp3 := strings.HasSuffix(key, ".Val[3]")
					if !isOp2 && !isOp3 && !cv.isLoop {
						continue // some other loop-carried value
					}
					n++
					pos := instrPos(ex.pred.Instrs[len(ex.pred.Instrs)-1])
					if kv.truthy {
						r.check(isOp2, "C01.falsy", m.EVAL, "continuation when the condition is "+kv.name, pos, "operand 2 (the then-form)", "when the condition is neither nil nor false the loop continues with "+d+" instead of operand 2")
					} else {
						r.check(isOp3, "C01.falsy", m.EVAL, "continuation when the condition is "+kv.name, pos, "operand 3 (the else-form)", "when the condition is "+kv.name+" the loop continues with "+d+" instead of operand 3")
					}
				}
			}
			_ = seen
		}
	}
	r.floor("C01.falsy", "continuations of the if region (over the three kinds of condition value)", n, 5)
}

func keysOf(m map[string]bool) []string {
	var s []string
	for k := range m {
		s = append(s, k)
	}
	sort.Strings(s)
	return s
}

func ruleDef(m *evalModel, r *Report) {
	reg, ok := m.regions["def"]
	if !ok {
		r.undecided("C01.def", m.EVAL, "def region", token.NoPos, "special form not found")
		return
	}
	var calls []evalCall
	for _, ec := range m.evalCalls() {
		if ec.fn == m.EVAL && reg[ec.call.Block()] {
			calls = append(calls, ec)
		}
	}
	if len(calls) == 0 {
		// the whole arm lives in a helper of the evaluator called from this region only
		for _, ec := range m.evalCalls() {
			if rs := m.regionSet(ec.call.Block()); ec.fn != m.EVAL && m.helperOf(ec.fn) != nil && len(rs) == 1 && rs["def"] {
				calls = append(calls, ec)
			}
		}
	}
	if !r.check(len(calls) == 1 && calls[0].callee == m.EVAL, "C01.def", m.EVAL, "evaluating calls in the def region", token.NoPos, "exactly one (the value operand)", "def does not evaluate exactly one form") {
		return
	}
	val := extractOf(calls[0].call, 0)
	sets := 0
	for _, b := range m.regionBlocks("def") {
		for _, in := range b.Instrs {
			ci, ok := in.(ssa.CallInstruction)
			if !ok || !ci.Common().IsInvoke() || ci.Common().Method.Name() != "Set" {
				continue
			}
			sets++
			okVal := len(ci.Common().Args) == 2
			nv := 0
			if okVal {
				for _, lf := range m.valuesIn(ci.Common().Args[1], "def", 0) {
					nv++
					if lf != ssa.Value(val) {
						okVal = false
					}
				}
			}
			r.check(okVal && nv > 0, "C01.def", b.Parent(), "value bound by def", in.Pos(), "the evaluated operand", "def binds something other than the value it evaluated")
			// the region's success return is Set's result (or the value), possibly handed up by the helper that binds
			returned := false
			isBound := func(v ssa.Value) bool {
				if v == ci.Value() {
					return true
				}
				for _, lf := range m.valuesIn(v, "def", 0) {
					if lf == ssa.Value(val) {
						return true
					}
				}
				return false
			}
			for _, rt := range m.returns(m.EVAL) {
				ret := rt[0].(*ssa.Return)
				if !reg[ret.Block()] {
					continue
				}
				v := rt[1].(ssa.Value)
				if isBound(v) {
					returned = true
				}
				// result of the helper that made the binding
				if h := m.helperOf(b.Parent()); h != nil {
					if c, ok := unboxedCall(v); ok && c.Call.StaticCallee() == h {
						for _, hr := range m.returns(h) {
							if isBound(hr[1].(ssa.Value)) {
								returned = true
							}
						}
					}
				}
			}
			r.check(returned, "C01.def", b.Parent(), "value returned by def", in.Pos(), "Set's result / the bound value", "def does not return the value it bound")
		}
	}
	r.check(sets == 1, "C01.def", m.EVAL, "bindings made by def", token.NoPos, "exactly one Set", fmt.Sprintf("%d Set calls", sets))
	// Env.Set / SetNT return their value parameter
	for _, name := range []string{"(*Env).Set", "(*Env).SetNT"} {
		fn := m.w.Fn("env", name)
		if fn == nil {
			r.undecided("C01.def", nil, name, token.NoPos, "method no longer resolves")
			continue
		}
		// returnsValue: every return of g hands back parameter vi, directly or as the result of a function of the
		// package that is handed that parameter and returns it in turn (Set -> SetNT -> set)
		var returnsValue func(g *ssa.Function, vi int, depth int) bool
		returnsValue = func(g *ssa.Function, vi int, depth int) bool {
			if depth > 3 || vi >= len(g.Params) || len(g.Blocks) == 0 {
				return false
			}
			n := 0
			for _, rt := range m.returns(g) {
				n++
				v := resolveRet(rt[1].(ssa.Value))
				if v == ssa.Value(g.Params[vi]) {
					continue
				}
				if c, ok := v.(*ssa.Call); ok && c.Call.StaticCallee() != nil && c.Call.StaticCallee().Pkg == g.Pkg {
					found := false
					for ai, a := range c.Call.Args {
						if a == ssa.Value(g.Params[vi]) && returnsValue(c.Call.StaticCallee(), ai, depth+1) {
							found = true
						}
					}
					if found {
						continue
					}
				}
				return false
			}
			return n > 0
		}
		okRet := returnsValue(fn, 2, 0)
		r.check(okRet, "C01.def", fn, "return value", fn.Pos(), "the value parameter", "Set does not return the value it was given")
	}
}

// ruleBody: call-site constants of the body helper and the shape of fn
func ruleBody(m *evalModel, r *Report) {
	want := map[string][2]int64{"do": {1, -1}, "let": {2, -1}}
	n := 0
	for _, ec := range m.evalCalls() {
		if ec.callee != m.doFn {
			continue
		}
		n++
		var from, to int64 = -99, -99
		for i, p := range m.doFn.Params {
			if isIntType(p.Type()) {
				if k, ok := ec.call.Call.Args[i].(*ssa.Const); ok && k.Value != nil {
					if from == -99 {
						from = k.Int64()
					} else {
						to = k.Int64()
					}
				}
			}
		}
		region := m.regionOf(ec.call.Block())
		construct := fmt.Sprintf("body helper call in %s", nz(region, "-"))
		switch {
		case ec.fn != m.EVAL: // closures of the try form: body runner and finally
			r.check(from == 0 && to == 0, "C01.body", ec.fn, construct+" (closure)", ec.call.Pos(), "(0,0): every form evaluated, last value returned", fmt.Sprintf("(%d,%d)", from, to))
		case region == "try":
			r.check(from == 0 && to == -1, "C01.body", ec.fn, construct+" (handler)", ec.call.Pos(), "(0,-1): all but the last evaluated, last form continues the loop", fmt.Sprintf("(%d,%d)", from, to))
		default:
			w, ok := want[region]
			r.check(ok && from == w[0] && to == w[1], "C01.body", ec.fn, construct, ec.call.Pos(), fmt.Sprintf("(%d,%d)", from, to), fmt.Sprintf("(%d,%d) does not match the form's grammar", from, to))
			// the list passed is the form itself
			r.check(m.e.keyOf(ec.ast).String() == m.formKey() || strings.HasPrefix(m.e.keyOf(ec.ast).String(), m.formKey()+".("), "C01.body", ec.fn, construct+": list passed", ec.call.Pos(), "the form itself", "the body helper does not receive the form being evaluated")
		}
	}
	// let: binding i is (symbol at index i, value of the form at index i+1), bound in the same iteration
	if reg, ok := m.regions["let"]; ok {
		for b := range reg {
			for _, in := range b.Instrs {
				ci, ok := in.(ssa.CallInstruction)
				if !ok || !ci.Common().IsInvoke() || ci.Common().Method.Name() != "Set" || len(ci.Common().Args) != 2 {
					continue
				}
				symIdx, valIdx := "", ""
				if t, off, ok := indexOfElem(m.e, ci.Common().Args[0]); ok {
					symIdx = fmt.Sprintf("%s%+d", t, off)
				}
				if pcs := m.producingCalls(ci.Common().Args[1], map[ssa.Value]bool{}); len(pcs) == 1 && pcs[0].Call.StaticCallee() == m.EVAL && pcs[0].Block().Dominates(b) {
					if t, off, ok := indexOfElem(m.e, pcs[0].Call.Args[1]); ok {
						valIdx = fmt.Sprintf("%s%+d", t, off-1)
					}
				}
				r.check(symIdx != "" && symIdx == valIdx, "C01.body", m.EVAL, "let binding pair", in.Pos(), "symbol at index i bound to the value of the form at index i+1", "let binds a symbol to the value of a form that is not its partner (symbol index "+symIdx+", value index-1 "+valIdx+")")
			}
		}
	}
	r.floor("C01.body", "calls of the body helper", n, 5)
	// the helper evaluates exactly the elements from..len+to of its list, in one left-to-right pass
	var evs []*ssa.Call
	for _, b := range m.doFn.Blocks {
		for _, in := range b.Instrs {
			if c, ok := in.(*ssa.Call); ok {
				switch c.Call.StaticCallee() {
				case m.EVAL, m.evalAst, m.apply, m.macroexpand:
					evs = append(evs, c)
				}
			}
		}
	}
	okAll := len(evs) == 1 && evs[0].Call.StaticCallee() == m.evalAst
	shape := ""
	if okAll {
		lv := listLiteralVal(evs[0].Call.Args[1])
		if lv != nil {
			shape = canonVal(m.e, lv)
		}
		// parameters by position: p1 = list, p2 = from, p3 = to
		okAll = shape == "p1.(types.List).Val[p2:len(p1.(types.List).Val)+p3]"
	}
	r.check(okAll, "C01.body", m.doFn, "forms evaluated by the body helper", m.doFn.Pos(), "one eval_ast over lst[from : len(lst)+to]: every body form, in order, once", "the helper does not evaluate exactly the forms from `from` to `len+to` in one pass (found "+fmt.Sprint(len(evs))+" evaluating calls, slice "+shape+")")
	// fn: literal MalFunc with Env = current scope, Params = operand 1, Exp = (do ...Val[2:])
	reg, ok := m.regions["fn"]
	if !ok {
		r.undecided("C01.body", m.EVAL, "fn region", token.NoPos, "special form not found")
		return
	}
	found := false
	// the blocks of the region, and those of the functions of the package the region calls to build the
	// closure (their parameters stand for the arguments of that call)
	fnBlocks := []*ssa.BasicBlock{}
	for b := range reg {
		fnBlocks = append(fnBlocks, b)
	}
	for b := range reg {
		for _, in := range b.Instrs {
			if c, ok := in.(*ssa.Call); ok {
				if sc := c.Call.StaticCallee(); sc != nil && sc.Pkg == m.EVAL.Pkg && sc.Parent() == nil && !m.isCore(sc) && len(sc.Blocks) > 0 && sc.Object() != nil && !sc.Object().Exported() {
					fnBlocks = append(fnBlocks, sc.Blocks...)
				}
			}
		}
	}
	// through: v, or - when v is a parameter of such a builder - the arguments it stands for
	through := func(v ssa.Value) []ssa.Value {
		if p, ok := v.(*ssa.Parameter); ok && p.Parent() != m.EVAL {
			if args := m.w.callSiteArgs(p); len(args) > 0 {
				return args
			}
		}
		return []ssa.Value{v}
	}
	keyThrough := func(v ssa.Value) string {
		k := m.e.keyOf(v)
		if p, ok := k.Root.(*ssa.Parameter); ok && p.Parent() != m.EVAL {
			if args := m.w.callSiteArgs(p); len(args) == 1 {
				return m.e.keyOf(args[0]).String() + k.Path
			}
		}
		return k.String()
	}
	for _, b := range fnBlocks {
		for _, in := range b.Instrs {
			st, ok := in.(*ssa.Store)
			if !ok {
				continue
			}
			fa, ok := st.Addr.(*ssa.FieldAddr)
			if !ok {
				continue
			}
			if _, name, ok := m.w.namedStruct(fa.X.Type()); !ok || name != "MalFunc" {
				continue
			}
			switch fieldName(fa.X.Type(), fa.Field) {
			case "Env":
				found = true
				okScope := true
				for _, sv := range through(st.Val) {
					okScope = okScope && m.isCurrentScope(sv)
				}
				r.check(okScope, "C01.body", m.EVAL, "scope captured by fn", st.Pos(), "the current scope", "the closure does not capture the scope it is defined in")
			case "Params":
				r.check(m.isOperand(st.Val, 1), "C01.body", m.EVAL, "parameters of fn", st.Pos(), "operand 1", "the parameter list is not operand 1")
			case "IsMacro":
				c, ok := st.Val.(*ssa.Const)
				r.check(ok && c.Value != nil && !constant.BoolVal(c.Value), "C12.flag", m.EVAL, "fn builds an ordinary function", st.Pos(), "IsMacro:false", "fn creates a macro")
			case "Exp":
				// List{Val: append([do], Val[2:]...)}
				okExp := false
				d := describeVal(m.e, st.Val, 0)
				if lv := listLiteralVal(st.Val); lv != nil {
					d = describeVal(m.e, lv, 0)
					if ap, ok := lv.(*ssa.Call); ok {
						if bi, ok := ap.Call.Value.(*ssa.Builtin); ok && bi.Name() == "append" && len(ap.Call.Args) == 2 {
							head := sliceLiteralElems(ap.Call.Args[0])
							okHead := len(head) == 1 && symbolLiteral(head[0]) == "do"
							okTail := false
							if sl, ok := ap.Call.Args[1].(*ssa.Slice); ok && sl.High == nil {
								if k, ok := sl.Low.(*ssa.Const); ok && k.Value != nil && k.Int64() == 2 {
									okTail = keyThrough(sl.X) == m.formKey()+".(github.com/jig/lisp/types.List).Val"
								}
							}
							okExp = okHead && okTail
						}
					}
				}
				r.check(okExp, "C01.body", m.EVAL, "body of fn", st.Pos(), "(do …operands from index 2)", "the closure body is not the do-wrapped operands from index 2: "+d)
			}
		}
	}
	r.check(found, "C01.body", m.EVAL, "fn builds a closure", token.NoPos, "MalFunc literal found", "no MalFunc literal in the fn region")
}

func ruleBinds(w *World, r *Report, e *Engine) {
	fn := w.Fn("env", "_newSubordinateEnvWithBinds")
	if fn == nil {
		r.undecided("C01.binds", nil, "binder", token.NoPos, "_newSubordinateEnvWithBinds no longer resolves")
		return
	}
	// the binding loop may live in an unexported function the binder is built from
	for _, cand := range w.withPkgHelpers(fn) {
		for _, l := range naturalLoops(cand) {
			for b := range loopBlocks(l) {
				if iff := blockIf(b); iff != nil {
					if _, s, _, ok := strCmp(iff.Cond); ok && s == "&" {
						fn = cand
					}
				}
			}
		}
	}
	loops := naturalLoops(fn)
	if !r.check(len(loops) == 1, "C01.binds", fn, "binding loop", fn.Pos(), "one loop over the parameter list", "binder loop not found") {
		return
	}
	// error result: the last result of the function holding the loop
	errOf := func(ret *ssa.Return) (ssa.Value, bool) {
		if len(ret.Results) == 0 || !isErrorType(ret.Results[len(ret.Results)-1].Type()) {
			return nil, false
		}
		return resolveRet(ret.Results[len(ret.Results)-1]), true
	}
	blocks := loopBlocks(loops[0])
	// the & test: comparison of a string with "&"
	var ampBlock *ssa.BasicBlock
	ampT, ampF := 0, 1 // the edges taken for & and for every other name (swapped when the test is written with !=)
	for b := range blocks {
		if iff := blockIf(b); iff != nil {
			if _, s, eq, ok := strCmp(iff.Cond); ok && s == "&" {
				ampBlock = b
				if !eq {
					ampT, ampF = 1, 0
				}
			}
		}
	}
	// & is the only name the binder knows: no other comparison of a parameter's name with a constant decides
	// anything in the loop (a name that is counted but not bound - a placeholder - leaves the handler of a
	// catch clause, or a function, without the value it was handed)
	for b := range blocks {
		if iff := blockIf(b); iff != nil {
			if _, s, _, ok := strCmp(iff.Cond); ok && s != "&" {
				r.bad("C01.binds", fn, "parameter name treated specially", iff.Pos(), "the binding loop compares a parameter's name with "+fmt.Sprintf("%q", s)+": a parameter of that name is not bound like the others (every name but & is bound to the argument in its position)")
			}
		}
	}
	if !r.check(ampBlock != nil, "C01.binds", fn, "test for &", fn.Pos(), "present", "no comparison with \"&\" in the binding loop: rest parameters are bound positionally") {
		return
	}
	// positional bind (map update with exprs[i]) is on the false edge of the & test; rest bind on the true edge
	var idx ssa.Value
	for _, in := range loops[0].header.Instrs {
		if phi, ok := in.(*ssa.Phi); ok && isIntType(phi.Type()) {
			idx = phi
		}
	}
	nUpd := 0
	for _, b := range fn.Blocks {
		if !loops[0].header.Dominates(b) {
			continue
		}
		for _, in := range b.Instrs {
			// a binding: a write into the table, or a call of a function of the package that takes a name and a
			// value and writes the value into a table
			var mu struct {
				Value ssa.Value
				pos   token.Pos
			}
			switch x := in.(type) {
			case *ssa.MapUpdate:
				mu.Value, mu.pos = x.Value, x.Pos()
			case *ssa.Call:
				if v, ok := bindingCallValue(x); ok {
					mu.Value, mu.pos = v, x.Pos()
				}
			}
			if mu.Value == nil {
				continue
			}
			nUpd++
			onAmp := edgeDominates(ampBlock, ampT, b)
			onPos := edgeDominates(ampBlock, ampF, b)
			val := mu.Value
			if mi, ok := val.(*ssa.MakeInterface); ok {
				val = mi.X
			}
			d := describeVal(e, mu.Value, 0)
			switch {
			case onAmp:
				// value is List{Val: exprs[i:]}
				okRest := strings.Contains(d, "[") && strings.Contains(d, ":]")
				if ld, ok := val.(*ssa.UnOp); ok {
					if al, ok := ld.X.(*ssa.Alloc); ok {
						for _, ref := range *al.Referrers() {
							if fa, ok := ref.(*ssa.FieldAddr); ok {
								for _, u := range *fa.Referrers() {
									if st, ok := u.(*ssa.Store); ok {
										if sl, ok := st.Val.(*ssa.Slice); ok && sl.Low == idx && sl.High == nil {
											okRest = true
										} else if ok {
											okRest = false
										}
									}
								}
							}
						}
					}
				}
				r.check(okRest, "C01.binds", fn, "rest parameter value", mu.pos, "the arguments from the index of & on", "the rest list does not start at the index of &")
			case onPos:
				okPos := false
				if ld, ok := stripIface(mu.Value).(*ssa.UnOp); ok {
					if ia, ok := ld.X.(*ssa.IndexAddr); ok && ia.Index == idx {
						okPos = true
					}
				}
				r.check(okPos, "C01.binds", fn, "positional parameter value", mu.pos, "the argument at the parameter's index", "a parameter is bound to an argument at a different index")
			default:
				r.bad("C01.binds", fn, "binding outside the &/positional split", mu.pos, "a binding is made before the & test")
			}
		}
	}
	r.check(nUpd == 2, "C01.binds", fn, "bindings in the loop", fn.Pos(), "one positional, one rest", fmt.Sprintf("%d bindings", nUpd))
	// both arity errors: an error return inside the loop on the positional path (too few), and one after the loop (too many)
	inLoop, after := 0, 0
	for _, b := range fn.Blocks {
		ret, ok := b.Instrs[len(b.Instrs)-1].(*ssa.Return)
		if !ok {
			continue
		}
		if ev, isErr := errOf(ret); !isErr || isNilConst(ev) {
			continue
		}
		if blocks[b] || anyPredIn(b, blocks) {
			if edgeDominates(ampBlock, ampF, b) {
				inLoop++
			}
		} else if loops[0].header.Dominates(b) && !edgeDominates(ampBlock, ampT, b) && !edgeDominates(ampBlock, ampF, b) {
			after++
		}
	}
	// no success return is reachable from the start of the binding code without passing the surplus test
	var arity *ssa.BasicBlock
	for _, b := range fn.Blocks {
		if blocks[b] || !loops[0].header.Dominates(b) {
			continue
		}
		if edgeDominates(ampBlock, ampT, b) || edgeDominates(ampBlock, ampF, b) {
			continue // a test inside one lap (the & branch may leave the function itself), not the one after the loop
		}
		if iff := blockIf(b); iff != nil {
			for _, s := range b.Succs {
				if ret, ok := s.Instrs[len(s.Instrs)-1].(*ssa.Return); ok {
					if ev, isErr := errOf(ret); isErr && !isNilConst(ev) {
						arity = b
					}
				}
			}
		}
	}
	if arity != nil {
		// the surplus test starts where the loop is left (normal exit and the break of the & branch meet
		// there): the outermost block outside the loop on the dominator chain of the error test
		for d := arity.Idom(); d != nil && !blocks[d] && loops[0].header.Dominates(d); d = d.Idom() {
			arity = d
		}
		var start *ssa.BasicBlock
		for _, b := range fn.Blocks {
			for _, in := range b.Instrs {
				if c, ok := in.(*ssa.Call); ok && c.Call.StaticCallee() != nil && c.Call.StaticCallee().Name() == "GetSlice" && start == nil {
					start = b
				}
			}
		}
		if start == nil && len(fn.Blocks) > 0 {
			start = fn.Blocks[0] // the lists were unpacked by the caller
		}
		bypass := false
		if start != nil {
			seen := map[*ssa.BasicBlock]bool{}
			stack := []*ssa.BasicBlock{start}
			for len(stack) > 0 {
				b := stack[len(stack)-1]
				stack = stack[:len(stack)-1]
				if seen[b] || b == arity {
					continue
				}
				seen[b] = true
				if ret, ok := b.Instrs[len(b.Instrs)-1].(*ssa.Return); ok {
					// (a success return on the & branch has bound the rest list: nothing can be left over)
					if ev, isErr := errOf(ret); isErr && isNilConst(ev) && !(ampBlock != nil && edgeDominates(ampBlock, ampT, b)) {
						bypass = true
					}
				}
				stack = append(stack, b.Succs...)
			}
		}
		r.check(start != nil && !bypass, "C01.binds", fn, "surplus-argument test on every successful binding", fn.Pos(), "no success return bypasses it", "a scope can be returned successfully without the test for left-over arguments having run")
	}
	r.check(inLoop >= 1, "C01.binds", fn, "too few arguments", fn.Pos(), "error returned on the positional path when arguments run out", "no error when arguments run out")
	r.check(after >= 1, "C01.binds", fn, "too many arguments", fn.Pos(), "error returned after the loop when arguments are left over", "no error when arguments are left over")
}

func anyPredIn(b *ssa.BasicBlock, blocks map[*ssa.BasicBlock]bool) bool {
	for _, p := range b.Preds {
		if blocks[p] {
			return true
		}
	}
	return false
}

var _ = types.Universe

// listLiteralVal: for a value that is (a boxed) List/Vector composite literal, the value stored into its Val field.
func listLiteralVal(v ssa.Value) ssa.Value {
	if mi, ok := v.(*ssa.MakeInterface); ok {
		v = mi.X
	}
	ld, ok := v.(*ssa.UnOp)
	if !ok || ld.Op != token.MUL {
		return nil
	}
	al, ok := ld.X.(*ssa.Alloc)
	if !ok {
		return nil
	}
	for _, ref := range *al.Referrers() {
		if fa, ok := ref.(*ssa.FieldAddr); ok && fieldName(fa.X.Type(), fa.Field) == "Val" {
			for _, u := range *fa.Referrers() {
				if st, ok := u.(*ssa.Store); ok && st.Addr == ssa.Value(fa) {
					return st.Val
				}
			}
		}
	}
	return nil
}

// sliceLiteralElems: the elements of a slice literal ([]T{a, b}): stores into the backing array.
func sliceLiteralElems(v ssa.Value) []ssa.Value {
	sl, ok := v.(*ssa.Slice)
	if !ok {
		return nil
	}
	al, ok := sl.X.(*ssa.Alloc)
	if !ok {
		return nil
	}
	var out []ssa.Value
	for _, ref := range *al.Referrers() {
		if ia, ok := ref.(*ssa.IndexAddr); ok {
			for _, u := range *ia.Referrers() {
				if st, ok := u.(*ssa.Store); ok && st.Addr == ssa.Value(ia) {
					out = append(out, st.Val)
				}
			}
		}
	}
	return out
}

// symbolLiteral: the name of a (boxed) Symbol{Val: "name"} literal, "" otherwise.
func symbolLiteral(v ssa.Value) string {
	if mi, ok := v.(*ssa.MakeInterface); ok {
		v = mi.X
	}
	ld, ok := v.(*ssa.UnOp)
	if !ok {
		return ""
	}
	al, ok := ld.X.(*ssa.Alloc)
	if !ok {
		return ""
	}
	if n, ok := al.Type().(*types.Pointer).Elem().(*types.Named); !ok || n.Obj().Name() != "Symbol" {
		return ""
	}
	for _, ref := range *al.Referrers() {
		if fa, ok := ref.(*ssa.FieldAddr); ok && fieldName(fa.X.Type(), fa.Field) == "Val" {
			for _, u := range *fa.Referrers() {
				if st, ok := u.(*ssa.Store); ok {
					if k, ok := st.Val.(*ssa.Const); ok && k.Value != nil && k.Value.Kind() == constant.String {
						return constant.StringVal(k.Value)
					}
				}
			}
		}
	}
	return ""
}

// indexOfElem: for a value that is (an assertion on) the element seq[idx] loaded from a slice, the linear form of idx.
func indexOfElem(e *Engine, v ssa.Value) (Term, int64, bool) {
	for depth := 0; depth < 4; depth++ {
		switch x := v.(type) {
		case *ssa.TypeAssert:
			v = x.X
			continue
		case *ssa.Extract:
			if ta, ok := x.Tuple.(*ssa.TypeAssert); ok {
				v = ta.X
				continue
			}
		case *ssa.UnOp:
			if ia, ok := x.X.(*ssa.IndexAddr); ok {
				return e.linOf(ia.Index)
			}
		}
		break
	}
	return Term{}, 0, false
}

// cmpKind: the constant a comparison of v is made with: "nil", "false" or "other".
func cmpKind(c *ssa.BinOp, v ssa.Value) string {
	other := c.Y
	if c.Y == v {
		other = c.X
	}
	if c.Op != token.EQL && c.Op != token.NEQ {
		return "other"
	}
	if isNilConst(other) {
		return "nil"
	}
	if mi, ok := other.(*ssa.MakeInterface); ok {
		if k, ok := mi.X.(*ssa.Const); ok && k.Value != nil && k.Value.Kind() == constant.Bool && !constant.BoolVal(k.Value) {
			return "false"
		}
	}
	return "other"
}

type regionExit struct {
	pred, succ *ssa.BasicBlock // edge leaving the region
	ret        *ssa.Return     // or a return inside it
}

// simulateRegion follows the control flow from block start while it stays inside reg, with the boolean
// values in assign given.  Conditions that are boolean combinations of the given values (phis of them and
// of constants, negation, comparison with a constant) are evaluated; every other branch is followed both
// ways.  It returns the exits that can be taken.
func simulateRegion(start *ssa.BasicBlock, reg map[*ssa.BasicBlock]bool, assign map[ssa.Value]bool) []regionExit {
	var exits []regionExit
	seenExit := map[regionExit]bool{}
	type state struct {
		b, prev *ssa.BasicBlock
	}
	var walk func(b, prev *ssa.BasicBlock, env map[ssa.Value]bool, depth int)
	eval := func(v ssa.Value, env map[ssa.Value]bool) (bool, bool) {
		if x, ok := env[v]; ok {
			return x, true
		}
		if c, ok := v.(*ssa.Const); ok && c.Value != nil && c.Value.Kind() == constant.Bool {
			return constant.BoolVal(c.Value), true
		}
		return false, false
	}
	walk = func(b, prev *ssa.BasicBlock, env0 map[ssa.Value]bool, depth int) {
		if depth > 64 {
			return
		}
		env := map[ssa.Value]bool{}
		for k, v := range env0 {
			env[k] = v
		}
		for _, in := range b.Instrs {
			switch x := in.(type) {
			case *ssa.Phi:
				if prev == nil {
					continue
				}
				for i, p := range b.Preds {
					if p == prev {
						if val, ok := eval(x.Edges[i], env0); ok {
							env[x] = val
						} else {
							delete(env, x)
						}
					}
				}
			case *ssa.UnOp:
				if x.Op == token.NOT {
					if val, ok := eval(x.X, env); ok {
						env[x] = !val
					}
				}
			case *ssa.BinOp:
				if _, given := assign[x]; given {
					continue
				}
				if x.Op == token.EQL || x.Op == token.NEQ {
					l, lok := eval(x.X, env)
					rr, rok := eval(x.Y, env)
					if lok && rok && isBoolType(x.X.Type()) {
						env[x] = (l == rr) == (x.Op == token.EQL)
					}
				}
			case *ssa.Return:
				e := regionExit{ret: x}
				if !seenExit[e] {
					seenExit[e] = true
					exits = append(exits, e)
				}
				return
			}
		}
		next := func(s *ssa.BasicBlock) {
			if !reg[s] {
				e := regionExit{pred: b, succ: s}
				if !seenExit[e] {
					seenExit[e] = true
					exits = append(exits, e)
				}
				return
			}
			walk(s, b, env, depth+1)
		}
		if iff := blockIf(b); iff != nil {
			if val, ok := eval(iff.Cond, env); ok {
				if val {
					next(b.Succs[0])
				} else {
					next(b.Succs[1])
				}
				return
			}
		}
		for _, s := range b.Succs {
			next(s)
		}
	}
	env := map[ssa.Value]bool{}
	for k, v := range assign {
		env[k] = v
	}
	walk(start, nil, env, 0)
	return exits
}

func isBoolType(t types.Type) bool {
	b, ok := t.Underlying().(*types.Basic)
	return ok && b.Info()&types.IsBoolean != 0
}

// childKind: the kind of a scope created as a child of parent.
func (m *evalModel) childKind(parent ssa.Value, call *ssa.Call) (scopeKind, *ssa.Call) {
	if m.isCurrentScope(parent) {
		return scFreshChild, call
	}
	if k, _ := m.scopeKindOf(parent); k == scCurrent {
		return scFreshChild, call
	}
	if f, ok := parent.(*ssa.Field); ok && fieldName(f.X.Type(), f.Field) == "Env" {
		return scClosureChild, call
	}
	if ld, ok := parent.(*ssa.UnOp); ok {
		if fa, ok := ld.X.(*ssa.FieldAddr); ok && fieldName(fa.X.Type(), fa.Field) == "Env" {
			return scClosureChild, call
		}
	}
	return scUnknown, call
}

// returnsChildOfParam: every scope the helper returns (first result, when no error is returned) is a child
// scope created inside it from its parameter number idx.
func (m *evalModel) returnsChildOfParam(h *ssa.Function) (int, bool) {
	if _, ok := m.helperSites[h]; !ok {
		return 0, false
	}
	res := h.Signature.Results()
	if res.Len() == 0 || !strings.HasSuffix(res.At(0).Type().String(), "types.EnvType") {
		return 0, false
	}
	idx, n := -1, 0
	for _, rt := range m.returns(h) {
		v0 := rt[1].(ssa.Value)
		if isNilConst(v0) {
			continue
		}
		var call *ssa.Call
		switch x := v0.(type) {
		case *ssa.Call:
			call = x
		case *ssa.Extract:
			call, _ = x.Tuple.(*ssa.Call)
		}
		if call == nil {
			return 0, false
		}
		c := call.Call.StaticCallee()
		if c != m.newSub && c != m.newSubBinds {
			return 0, false
		}
		p, ok := call.Call.Args[0].(*ssa.Parameter)
		if !ok {
			return 0, false
		}
		k := -1
		for i, q := range h.Params {
			if q == p {
				k = i
			}
		}
		if k < 0 || (idx >= 0 && idx != k) {
			return 0, false
		}
		idx = k
		n++
	}
	return idx, n > 0 && idx >= 0
}

// doMode: "all" when the body helper is called with to == 0 (every form evaluated, value returned),
// "tail" when to == -1 (last form returned unevaluated), "" otherwise.
func doMode(call *ssa.Call) string {
	var ints []int64
	for _, a := range call.Call.Args {
		if k, ok := a.(*ssa.Const); ok && k.Value != nil && isIntType(k.Type()) {
			ints = append(ints, k.Int64())
		}
	}
	if len(ints) != 2 {
		return ""
	}
	switch ints[1] {
	case 0:
		return "all"
	case -1:
		return "tail"
	}
	return ""
}

// doCallMode: the mode (see doMode) of the calls of the body helper inside fn, "" when they disagree or there are none.
func doCallMode(fn, doFn *ssa.Function) string {
	mode := ""
	for _, c := range staticCallsTo(fn, doFn) {
		mm := doMode(c)
		if mode != "" && mm != mode {
			return ""
		}
		mode = mm
	}
	return mode
}

// isOperand: v is operand number idx of a list form, whatever local it travelled through: every producer of the
// value is nil (the operand is absent) or an element load `.Val[idx]`.
func (m *evalModel) isOperand(v ssa.Value, idx int) bool {
	suffix := fmt.Sprintf(".Val[%d]", idx)
	var leaves func(v ssa.Value, depth int) []ssa.Value
	leaves = func(v ssa.Value, depth int) []ssa.Value {
		var out []ssa.Value
		for _, lf := range m.e.producers(v, map[ssa.Value]bool{}, 0) {
			if p, ok := lf.(*ssa.Parameter); ok && depth < 4 {
				args := m.argsFor(p)
				if len(args) == 0 && p.Parent() != m.EVAL && p.Parent().Pkg == m.EVAL.Pkg && p.Parent().Object() != nil && !p.Parent().Object().Exported() {
					// a function of the package that is no evaluation helper (it builds a value from parts of
					// the form): what its call sites hand over
					args = m.w.callSiteArgs(p)
				}
				if len(args) > 0 {
					for _, a := range args {
						out = append(out, leaves(a, depth+1)...)
					}
					continue
				}
			}
			out = append(out, lf)
		}
		return out
	}
	n := 0
	for _, lf := range leaves(v, 0) {
		if isNilConst(lf) {
			continue
		}
		n++
		if !strings.HasSuffix(m.e.keyOf(lf).String(), suffix) {
			return false
		}
	}
	return n > 0
}

// onlyDefRegions: every region in the set is one of the two binding forms.
func onlyDefRegions(rs map[string]bool) bool {
	if len(rs) == 0 {
		return false
	}
	for r := range rs {
		if r != "def" && r != "defmacro" {
			return false
		}
	}
	return true
}

// scopeNewRule: the functions of the env package that hand out scopes (package-level functions with a scope
// result) return, on every path that returns one, a scope allocated by this call - the struct literal itself
// or the result of another such function - never a scope they were given. (A constructor that returns its
// outer scope when there is nothing to bind lets a def in a parameterless body land in the defining scope.)
func scopeNewRule(w *World, r *Report, rule string) {
	r.rule(rule, "every function or method of the env package that makes scopes (it has a scope result and allocates an Env, itself or through another such function) returns, wherever it returns a scope, one that this call allocated (the Env literal, or the result of another such function): a child scope is never the scope it was derived from")
	isScopeT := func(t types.Type) bool {
		if strings.HasSuffix(t.String(), "types.EnvType") {
			return true
		}
		_, name, ok := w.namedStruct(t)
		return ok && name == "Env"
	}
	// a function or method of the package that makes scopes: it has a scope result and allocates an Env
	// itself or calls one that does (Find and the like hand out existing scopes and allocate nothing)
	allocates := map[*ssa.Function]bool{}
	for changed := true; changed; {
		changed = false
		for _, f := range w.pkgFuncs("env") {
			if allocates[f] || f.Parent() != nil {
				continue
			}
			res := f.Signature.Results()
			if res.Len() == 0 || !isScopeT(res.At(0).Type()) {
				continue
			}
			for _, b := range f.Blocks {
				for _, in := range b.Instrs {
					switch x := in.(type) {
					case *ssa.Alloc:
						if _, name, ok := w.namedStruct(x.Type()); ok && name == "Env" && x.Heap {
							allocates[f] = true
						}
					case *ssa.Call:
						if allocates[x.Call.StaticCallee()] {
							allocates[f] = true
						}
					}
				}
			}
			if allocates[f] {
				changed = true
			}
		}
	}
	// ... and the exported scope makers of the package (what the evaluator calls for a new scope) with the
	// functions of the package they get the scope from: a maker that hands out a recycled scope allocates nothing
	for _, f := range w.pkgFuncs("env") {
		if f.Parent() != nil || f.Signature.Recv() != nil || f.Object() == nil || !f.Object().Exported() {
			continue
		}
		if res := f.Signature.Results(); res.Len() > 0 && isScopeT(res.At(0).Type()) {
			allocates[f] = true
		}
	}
	for changed := true; changed; {
		changed = false
		for f := range allocates {
			for _, b := range f.Blocks {
				if len(b.Instrs) == 0 {
					continue
				}
				ret, ok := b.Instrs[len(b.Instrs)-1].(*ssa.Return)
				if !ok || len(ret.Results) == 0 {
					continue
				}
				v := resolveRet(ret.Results[0])
				for depth := 0; depth < 4; depth++ {
					switch y := v.(type) {
					case *ssa.MakeInterface:
						v = y.X
					case *ssa.ChangeInterface:
						v = y.X
					case *ssa.Extract:
						v = y.Tuple
					}
				}
				if c, ok := v.(*ssa.Call); ok {
					if g := c.Call.StaticCallee(); g != nil && fnPkgPath(g) == modPath+"/env" && len(g.Blocks) > 0 && !allocates[g] {
						if res := g.Signature.Results(); res.Len() > 0 && isScopeT(res.At(0).Type()) {
							allocates[g] = true
							changed = true
						}
					}
				}
			}
		}
	}
	isCtor := func(fn *ssa.Function) bool {
		return fn != nil && allocates[fn]
	}
	var fresh func(v ssa.Value, depth int) bool
	fresh = func(v ssa.Value, depth int) bool {
		if depth > 6 {
			return false
		}
		switch x := v.(type) {
		case *ssa.MakeInterface:
			return fresh(x.X, depth+1)
		case *ssa.ChangeInterface:
			return fresh(x.X, depth+1)
		case *ssa.ChangeType:
			return fresh(x.X, depth+1)
		case *ssa.Alloc:
			return x.Heap
		case *ssa.Call:
			return isCtor(x.Call.StaticCallee())
		case *ssa.Extract:
			return fresh(x.Tuple, depth+1)
		case *ssa.Phi:
			for _, ed := range x.Edges {
				if !isNilConst(ed) && !fresh(ed, depth+1) {
					return false
				}
			}
			return true
		}
		return false
	}
	n := 0
	for _, fn := range w.Funcs {
		if isTestFunc(w, fn) || !isCtor(fn) {
			continue
		}
		for _, b := range fn.Blocks {
			ret, ok := b.Instrs[len(b.Instrs)-1].(*ssa.Return)
			if !ok {
				continue
			}
			if len(ret.Results) == 1 {
				if c, isCall := ret.Results[0].(*ssa.Call); isCall && c.Call.Signature().Results().Len() > 1 {
					n++
					r.check(isCtor(c.Call.StaticCallee()), rule, fn, "scope handed out", ret.Pos(), "allocated by this call", "the results of "+describeVal(nil, c, 0)+" are handed out as a new scope")
					continue
				}
			}
			v := resolveRet(ret.Results[0])
			if isNilConst(v) {
				continue
			}
			n++
			r.check(fresh(v, 0), rule, fn, "scope handed out", ret.Pos(), "allocated by this call", "the scope returned ("+describeVal(nil, v, 0)+") is not one this call allocated: the caller binds parameters and definitions into a scope that already belongs to someone else (a def in the body of a function then lands in the defining scope, and two calls share their locals)")
		}
	}
	r.floor(rule, "returns of the scope constructors", n, 3)
}

// bindingCallValue: the call hands a name (string or symbol) and a value to a function of the caller's package
// that writes that value into a table; returns the value argument.
func bindingCallValue(c *ssa.Call) (ssa.Value, bool) {
	g := c.Call.StaticCallee()
	if g == nil || c.Parent() == nil || g.Pkg != c.Parent().Pkg || len(g.Blocks) == 0 || len(g.Params) != len(c.Call.Args) {
		return nil, false
	}
	hasName, vi := false, -1
	for i, p := range g.Params {
		if isBasic(p.Type(), types.String) {
			hasName = true
		} else if n, ok := p.Type().(*types.Named); ok && n.Obj().Name() == "Symbol" {
			hasName = true
		} else if types.IsInterface(p.Type()) && !isErrorType(p.Type()) {
			vi = i
		}
	}
	if !hasName || vi < 0 {
		return nil, false
	}
	for _, b := range g.Blocks {
		for _, in := range b.Instrs {
			if mu, ok := in.(*ssa.MapUpdate); ok && stripConv(mu.Value) == ssa.Value(g.Params[vi]) {
				return c.Call.Args[vi], true
			}
		}
	}
	return nil, false
}

// forwardTarget: a function whose whole body hands its parameters, in order, to one function of its package and
// returns that call's results is, for the rules, the function it forwards to (GetNT -> get).
func forwardTarget(fn *ssa.Function) *ssa.Function {
	for depth := 0; depth < 3 && fn != nil && len(fn.Blocks) == 1; depth++ {
		var call *ssa.Call
		ok := true
		for _, in := range fn.Blocks[0].Instrs {
			switch x := in.(type) {
			case *ssa.Call:
				if call != nil {
					ok = false
				}
				call = x
			case *ssa.Extract, *ssa.DebugRef:
			case *ssa.Return:
				for _, rv := range x.Results {
					switch y := rv.(type) {
					case *ssa.Extract:
						if y.Tuple != ssa.Value(call) {
							ok = false
						}
					default:
						if rv != ssa.Value(call) {
							ok = false
						}
					}
				}
			default:
				ok = false
			}
		}
		if !ok || call == nil {
			return fn
		}
		g := call.Call.StaticCallee()
		if g == nil || g.Pkg != fn.Pkg || len(g.Blocks) == 0 || len(call.Call.Args) != len(fn.Params) {
			return fn
		}
		for i, a := range call.Call.Args {
			if a != ssa.Value(fn.Params[i]) {
				return fn
			}
		}
		fn = g
	}
	return fn
}

// allReturns: the result values of every return of fn (cells of named results resolved).
func (m *evalModel) allReturns(fn *ssa.Function) [][]ssa.Value {
	var out [][]ssa.Value
	if fn == nil {
		return nil
	}
	for _, b := range fn.Blocks {
		if len(b.Instrs) == 0 || b == fn.Recover {
			continue
		}
		ret, ok := b.Instrs[len(b.Instrs)-1].(*ssa.Return)
		if !ok {
			continue
		}
		var vs []ssa.Value
		for _, v := range ret.Results {
			vs = append(vs, resolveRet(v))
		}
		out = append(out, vs)
	}
	return out
}

// strCmp: a comparison of a string with a constant, written with == or != (eq tells which).
func strCmp(v ssa.Value) (ssa.Value, string, bool, bool) {
	bo, ok := v.(*ssa.BinOp)
	if !ok || (bo.Op != token.EQL && bo.Op != token.NEQ) {
		return nil, "", false, false
	}
	if c, ok := bo.Y.(*ssa.Const); ok && c.Value != nil && c.Value.Kind() == constant.String {
		return bo.X, constant.StringVal(c.Value), bo.Op == token.EQL, true
	}
	return nil, "", false, false
}

// dispatchRules: which special form a lap of the evaluator's loop takes is decided by the head of the form of
// that lap, and by its name alone.
func dispatchRules(m *evalModel, r *Report, pfx string) {
	// the special form a lap of the loop takes is decided by the form of that lap alone
	r.rule(pfx+".dispatch-fresh", "the name the special-form dispatch compares is computed from the current form on every lap of the evaluator's loop: it is no value carried over from the lap before (a call whose operator is no symbol would be taken for the special form evaluated last)")
	{
		carried := false
		seen := map[ssa.Value]bool{}
		var walk func(v ssa.Value, depth int)
		walk = func(v ssa.Value, depth int) {
			if v == nil || seen[v] || depth > 8 || carried {
				return
			}
			seen[v] = true
			if phi, ok := v.(*ssa.Phi); ok {
				if m.header != nil && phi.Block() == m.header {
					carried = true
					return
				}
				for _, l := range naturalLoops(m.EVAL) {
					if l.header == phi.Block() && phi.Block().Dominates(m.header) {
						carried = true
						return
					}
				}
				for _, ed := range phi.Edges {
					walk(ed, depth+1)
				}
			}
		}
		walk(m.dispatch, 0)
		pos := m.EVAL.Pos()
		if m.dispatch != nil && m.dispatch.Pos().IsValid() {
			pos = m.dispatch.Pos()
		}
		r.check(!carried, pfx+".dispatch-fresh", m.EVAL, "name compared by the special-form dispatch", pos, "computed from the current form on every lap", "the name the dispatch compares can be the one of the lap before (a variable of the loop that is not set again on every path): a call form whose operator is not a symbol, met in tail position, is evaluated as the special form handled last")
	}
	// ... and by nothing but its name: special forms are no bindings, a scope cannot shadow them
	r.rule(pfx+".dispatch-by-name", "whether the head symbol of a form selects a special form does not depend on the scope: no test that decides which name the dispatch compares calls a method of the scope or is handed the scope (quote, do, if … written by a macro expansion or by quasiquote mean the special form wherever the form is evaluated)")
	if phi, ok := m.dispatch.(*ssa.Phi); ok && phi.Block().Idom() != nil && m.envParam != nil {
		P, D := phi.Block(), phi.Block().Idom()
		region := map[*ssa.BasicBlock]bool{D: true}
		stack := []*ssa.BasicBlock{D}
		for len(stack) > 0 {
			b := stack[len(stack)-1]
			stack = stack[:len(stack)-1]
			for _, s := range b.Succs {
				if s != P && !region[s] && D.Dominates(s) {
					region[s] = true
					stack = append(stack, s)
				}
			}
		}
		envT := m.envParam.Type()
		n := 0
		for b := range region {
			iff := blockIf(b)
			if iff == nil || !blockReaches(b, P, false) {
				continue
			}
			n++
			asksScope := false
			seen := map[ssa.Value]bool{}
			var walk func(v ssa.Value, depth int)
			walk = func(v ssa.Value, depth int) {
				if v == nil || seen[v] || depth > 6 || asksScope {
					return
				}
				seen[v] = true
				if c, ok := v.(*ssa.Call); ok {
					if c.Call.IsInvoke() && types.Identical(c.Call.Value.Type(), envT) {
						asksScope = true
						return
					}
					for _, a := range c.Call.Args {
						if types.Identical(a.Type(), envT) {
							asksScope = true
							return
						}
					}
				}
				// only what the test itself is made of: comparisons, negations and the calls whose answers they compare
				// (how the form at hand was obtained - the expansion before the dispatch - is no part of the test)
				switch x := v.(type) {
				case *ssa.BinOp:
					walk(x.X, depth+1)
					walk(x.Y, depth+1)
				case *ssa.UnOp:
					if x.Op == token.NOT {
						walk(x.X, depth+1)
					}
				case *ssa.Extract:
					walk(x.Tuple, depth+1)
				case *ssa.MakeInterface:
					walk(x.X, depth+1)
				case *ssa.ChangeInterface:
					walk(x.X, depth+1)
				}
			}
			walk(iff.Cond, 0)
			r.check(!asksScope, pfx+".dispatch-by-name", m.EVAL, "test that decides the name the dispatch compares", iff.Cond.Pos(), "asks nothing of the scope", "the name the special-form dispatch compares depends on a question put to the scope (is the head symbol bound?): in a scope that binds a name like quote, do or if, forms written by quasiquote or by a macro expansion are no longer the special forms they spell")
		}
		r.floor(pfx+".dispatch-by-name", "tests that decide the dispatch name", n, 1)
	}
}

// headNameArg: c calls a function of the module with one lisp value parameter and one string result whose every
// answer is a constant or the Val field of that parameter asserted to a struct (`if s, ok := head.(Symbol); ok
// { return s.Val }; return marker`): the argument the name is taken from, else nil.
func headNameArg(c *ssa.Call) ssa.Value {
	sc := c.Call.StaticCallee()
	if sc == nil || !inModule(sc) || len(sc.Blocks) == 0 || len(sc.Params) != 1 || len(c.Call.Args) != 1 || sc.Signature.Results().Len() != 1 || !isMalType(sc.Params[0].Type()) {
		return nil
	}
	var fromParam func(v ssa.Value, depth int) bool
	fromParam = func(v ssa.Value, depth int) bool {
		if depth > 6 {
			return false
		}
		switch x := v.(type) {
		case *ssa.Const:
			return true
		case *ssa.Phi:
			for _, ed := range x.Edges {
				if !fromParam(ed, depth+1) {
					return false
				}
			}
			return len(x.Edges) > 0
		case *ssa.Field:
			return fromParam(x.X, depth+1)
		case *ssa.Extract:
			return fromParam(x.Tuple, depth+1)
		case *ssa.TypeAssert:
			return x.X == ssa.Value(sc.Params[0])
		case *ssa.UnOp:
			// a field of the local the asserted struct was spilled into
			if fa, ok := x.X.(*ssa.FieldAddr); ok && x.Op == token.MUL {
				if al, ok := fa.X.(*ssa.Alloc); ok {
					var stored ssa.Value
					cnt := 0
					for _, ref := range *al.Referrers() {
						if st, ok := ref.(*ssa.Store); ok && st.Addr == ssa.Value(al) {
							stored = st.Val
							cnt++
						}
					}
					return cnt == 1 && fromParam(stored, depth+1)
				}
			}
		}
		return false
	}
	some := false
	for _, b := range sc.Blocks {
		if ret, ok := b.Instrs[len(b.Instrs)-1].(*ssa.Return); ok {
			if len(ret.Results) != 1 || !isStringVal(ret.Results[0]) || !fromParam(ret.Results[0], 0) {
				return nil
			}
			if _, isC := ret.Results[0].(*ssa.Const); !isC {
				some = true
			}
		}
	}
	if !some {
		return nil
	}
	return c.Call.Args[0]
}
