package main

// May-panic audit (analyses A and B of DESIGN.md): enumerate every instruction
// that can raise a run-time panic in the call closure of a set of entry points,
// not descending through recover barriers, and discharge each by a dominating
// guard, an intrinsic reason, or a single-construct exemption.

import (
	"fmt"
	"go/constant"
	"go/token"
	"go/types"
	"regexp"
	"sort"
	"strings"

	"golang.org/x/tools/go/ssa"
)

type Audit struct {
	w          *World
	e          *Engine
	r          *Report
	rule       string
	exempt     map[string]string // "func | construct" -> reason
	cmp        bool              // also audit == on lisp values and map keys of interface type (uncomparable dynamic types panic)
	mayNil     map[ssa.Value]bool
	nilRet     map[*ssa.Function][]bool
	barriers   map[*ssa.Function]string
	closure    []*ssa.Function
	inClos     map[*ssa.Function]bool
	callees    map[*ssa.Function][]*ssa.Function
	hostNil    map[string][]int // function name -> parameter indices the host may pass nil
	usedEx     map[string]bool
	only       func(*ssa.BasicBlock) bool // when set, only sites in these blocks are audited
	pendingSrc string                     // source text of the site being reported (shown in the detail)
}

// isRecoverBarrier: the function's first instruction that can do anything is a
// defer of a function that calls recover() and handles every recovered value.
func (w *World) recoverHandler(fn *ssa.Function) bool {
	// fn calls recover() directly
	for _, b := range fn.Blocks {
		for _, in := range b.Instrs {
			if c, ok := in.(*ssa.Call); ok {
				if bi, ok := c.Call.Value.(*ssa.Builtin); ok && bi.Name() == "recover" {
					return true
				}
			}
		}
	}
	return false
}

// barrierOf reports whether fn installs a recover handler before anything that
// can panic: the entry block starts (after allocs/stores of parameters) with
// `defer h(...)` where h calls recover() directly.
func (w *World) barrierOf(fn *ssa.Function) (*ssa.Function, bool) {
	if len(fn.Blocks) == 0 {
		return nil, false
	}
	for _, in := range fn.Blocks[0].Instrs {
		switch in := in.(type) {
		case *ssa.Alloc, *ssa.Store, *ssa.DebugRef:
			continue
		case *ssa.UnOp:
			if in.Op == token.MUL {
				if _, ok := in.X.(*ssa.FreeVar); ok {
					continue
				}
				if _, ok := in.X.(*ssa.Alloc); ok {
					continue
				}
			}
			return nil, false
		case *ssa.Defer:
			h := in.Call.StaticCallee()
			if h != nil && w.recoverHandler(h) {
				return h, true
			}
			return nil, false
		default:
			return nil, false
		}
	}
	return nil, false
}

// dynamic callees inside the module, resolved structurally:
//   - invoke on an interface: every module type's method of that name whose receiver implements the interface
//   - call of a function value: every module function whose address is taken (MakeClosure or function used as value)
//     with an identical signature
func (w *World) dynCallees(site ssa.CallInstruction) []*ssa.Function {
	c := site.Common()
	var out []*ssa.Function
	if c.IsInvoke() {
		iface, _ := c.Value.Type().Underlying().(*types.Interface)
		if iface == nil {
			return nil
		}
		for _, fn := range w.Funcs {
			if fn.Signature.Recv() == nil || fn.Name() != c.Method.Name() || isTestFunc(w, fn) {
				continue
			}
			rt := fn.Signature.Recv().Type()
			if types.Implements(rt, iface) {
				out = append(out, fn)
			}
		}
		return out
	}
	if c.StaticCallee() != nil {
		return nil
	}
	sig, _ := c.Value.Type().Underlying().(*types.Signature)
	if sig == nil {
		return nil
	}
	for _, fn := range w.addrTaken() {
		if types.Identical(fn.Signature, sig) || sameParamsResults(fn.Signature, sig) {
			out = append(out, fn)
		}
	}
	return out
}

func sameParamsResults(a, b *types.Signature) bool {
	return types.Identical(a.Params(), b.Params()) && types.Identical(a.Results(), b.Results()) && a.Variadic() == b.Variadic()
}

var addrTakenCache map[*World][]*ssa.Function

func (w *World) addrTaken() []*ssa.Function {
	if addrTakenCache == nil {
		addrTakenCache = map[*World][]*ssa.Function{}
	}
	if v, ok := addrTakenCache[w]; ok {
		return v
	}
	set := map[*ssa.Function]bool{}
	for _, fn := range w.Funcs {
		if isTestFunc(w, fn) {
			continue // test code is host code: its closures are not part of the library
		}
		for _, b := range fn.Blocks {
			for _, in := range b.Instrs {
				ops := in.Operands(nil)
				isCall := false
				var callVal ssa.Value
				if ci, ok := in.(ssa.CallInstruction); ok {
					isCall = true
					callVal = ci.Common().Value
				}
				for _, op := range ops {
					v := *op
					if v == nil {
						continue
					}
					if mc, ok := v.(*ssa.MakeClosure); ok {
						v = mc.Fn
					}
					f, ok := v.(*ssa.Function)
					if !ok {
						continue
					}
					if isCall && callVal == *op {
						continue // direct call, not a value use
					}
					if strings.HasPrefix(fnPkgPath(f), modPath) {
						set[f] = true
					}
				}
				if mc, ok := in.(*ssa.MakeClosure); ok {
					if f, ok := mc.Fn.(*ssa.Function); ok {
						set[f] = true
					}
				}
			}
		}
	}
	var out []*ssa.Function
	for f := range set {
		out = append(out, f)
	}
	sort.Slice(out, func(i, j int) bool { return out[i].String() < out[j].String() })
	addrTakenCache[w] = out
	return out
}

func newAudit(w *World, e *Engine, r *Report, rule string) *Audit {
	return &Audit{w: w, e: e, r: r, rule: rule, exempt: map[string]string{}, mayNil: map[ssa.Value]bool{},
		nilRet: map[*ssa.Function][]bool{}, barriers: map[*ssa.Function]string{}, inClos: map[*ssa.Function]bool{},
		callees: map[*ssa.Function][]*ssa.Function{}, hostNil: map[string][]int{}, usedEx: map[string]bool{}}
}

// computeClosure walks calls from the entries; functions behind a recover
// barrier are recorded as barriers and not entered. `go` statement bodies are
// added as separate roots (no barrier of the spawner protects them).
func (a *Audit) computeClosure(entries []*ssa.Function, stopAt func(*ssa.Function) bool) {
	var work []*ssa.Function
	push := func(f *ssa.Function) {
		if f == nil || f.Blocks == nil || a.inClos[f] {
			return
		}
		if !strings.HasPrefix(fnPkgPath(f), modPath) {
			return
		}
		if stopAt != nil && stopAt(f) {
			return
		}
		if h, ok := a.w.barrierOf(f); ok {
			if _, seen := a.barriers[f]; !seen {
				a.barriers[f] = a.w.fnName(h)
				// the handler itself runs outside any protection: audit it
				work = append(work, h)
				a.inClos[h] = true
			}
			return
		}
		a.inClos[f] = true
		work = append(work, f)
	}
	for _, f := range entries {
		push(f)
	}
	for len(work) > 0 {
		f := work[len(work)-1]
		work = work[:len(work)-1]
		a.closure = append(a.closure, f)
		for _, b := range f.Blocks {
			for _, in := range b.Instrs {
				switch in := in.(type) {
				case ssa.CallInstruction:
					c := in.Common()
					if sc := c.StaticCallee(); sc != nil {
						push(sc)
						a.callees[f] = append(a.callees[f], sc)
					} else {
						for _, d := range a.w.dynCallees(in) {
							push(d)
							a.callees[f] = append(a.callees[f], d)
						}
					}
					// closures passed as arguments or deferred/go'ed are reached via MakeClosure below
				case *ssa.MakeClosure:
					push(in.Fn.(*ssa.Function))
				}
			}
		}
	}
	sort.Slice(a.closure, func(i, j int) bool { return a.closure[i].String() < a.closure[j].String() })
}

func (a *Audit) exemptKey(fn *ssa.Function, construct string) string {
	name := a.w.fnName(fn)
	if rn := a.w.roleName(fn); rn != fn.Name() && fn.Parent() == nil && fn.Signature.Recv() == nil {
		// an anchor that was renamed keeps the key of the part it plays
		name = strings.TrimSuffix(name, fn.Name()) + rn
	}
	return name + " | " + construct
}

func (a *Audit) site(fn *ssa.Function, kind, construct string, pos token.Pos, ok bool, why string) {
	c := kind + " " + construct
	if a.pendingSrc != "" {
		why = "[" + a.pendingSrc + "] " + why
		a.pendingSrc = ""
	}
	if ok {
		a.r.ok(a.rule, fn, c, pos, why)
		return
	}
	if key, reason, ex := lookupExempt(a.exempt, a.exemptKey(fn, c)); ex {
		a.usedEx[key] = true
		a.r.add(a.rule, fn, c, pos, "exempt", reason)
		return
	}
	if key, reason, ex := a.liftedExempt(fn, c); ex {
		a.usedEx[key] = true
		a.r.add(a.rule, fn, c, pos, "exempt", reason+" (the construct stands in an unexported function; at each of its call sites the construct, written in the caller's terms, is the exempted one)")
		return
	}
	a.r.bad(a.rule, fn, c, pos, why)
}

var paramTok = regexp.MustCompile(`\bp(\d+)\b`)

// liftedExempt: a construct of an unexported function that is written in terms of its parameters only is the
// exempted construct of its callers when, at every call site, substituting the arguments for the parameters gives
// a construct the table exempts for the calling function (the code was moved into a helper, the reason stands).
func (a *Audit) liftedExempt(fn *ssa.Function, construct string) (string, string, bool) {
	if fn.Parent() != nil || fn.Object() == nil || fn.Object().Exported() || !paramTok.MatchString(construct) {
		return "", "", false
	}
	sites := a.e.callSites(fn)
	if len(sites) == 0 || a.e.escaped[fn] {
		return "", "", false
	}
	var key, reason string
	for _, site := range sites {
		caller := site.Parent()
		if caller == nil || isTestFunc(a.w, caller) {
			continue
		}
		args := site.Common().Args
		bad := false
		lifted := paramTok.ReplaceAllStringFunc(construct, func(tok string) string {
			var n int
			fmt.Sscanf(tok, "p%d", &n)
			if n >= len(args) {
				bad = true
				return tok
			}
			return canonVal(a.e, args[n])
		})
		if bad {
			return "", "", false
		}
		k, why, ok := lookupExempt(a.exempt, a.exemptKey(caller, lifted))
		if !ok {
			return "", "", false
		}
		key, reason = k, why
	}
	return key, reason, key != ""
}

// lookupExempt finds the exemption for a construct.  Whether a variable of the function lives in a cell
// (because a closure captures it) or in a phi is not part of the construct's identity: both render as one token.
func lookupExempt(table map[string]string, key string) (string, string, bool) {
	if reason, ok := table[key]; ok {
		return key, reason, true
	}
	nk := normVarTokens(key)
	for k, reason := range table {
		if normVarTokens(k) == nk {
			return k, reason, true
		}
	}
	return "", "", false
}

var localTok = regexp.MustCompile(`\blocal\b`)

func normVarTokens(s string) string { return localTok.ReplaceAllString(s, "φ") }

func exprOf(e *Engine, v ssa.Value) string {
	return e.keyOf(v).String()
}

// describe renders a value for obligation keys: the source text of the
// expression when the instruction has one, else a rendering of the SSA value.
func (a *Audit) describe(v ssa.Value) string {
	if in, ok := v.(ssa.Instruction); ok {
		switch v.(type) {
		case *ssa.TypeAssert, *ssa.Slice:
			if s := a.w.srcExpr(in); s != "" {
				a.pendingSrc = s
			}
		}
	}
	return canonVal(a.e, v)
}

// canonNames switches describeVal to a rendering that does not depend on the names of
// parameters, locals and captured variables (used for obligation keys and exemptions).
var canonNames bool

func canonVal(e *Engine, v ssa.Value) string {
	old := canonNames
	canonNames = true
	defer func() { canonNames = old }()
	return describeVal(e, v, 0)
}

// canonField: in canonical renderings an unexported field is named by its type (its name is the author's
// business and may change; exported fields are API).
func canonField(t types.Type, i int) string {
	name := fieldName(t, i)
	if !canonNames || token.IsExported(name) {
		return name
	}
	if fv := structField(t, i); fv != nil {
		return "{" + shortType(fv.Type()) + "}"
	}
	return name
}

func paramIndexName(p *ssa.Parameter) string {
	for i, q := range p.Parent().Params {
		if q == p {
			return fmt.Sprintf("p%d", i)
		}
	}
	return "p?"
}

func describeVal(e *Engine, v ssa.Value, depth int) string {
	limit := 6
	if canonNames {
		limit = 14
	}
	if depth > limit {
		return "…"
	}
	switch x := v.(type) {
	case *ssa.Parameter:
		if canonNames {
			return paramIndexName(x)
		}
		return x.Name()
	case *ssa.FreeVar:
		if canonNames {
			for i, q := range x.Parent().FreeVars {
				if q == x {
					return fmt.Sprintf("fv%d", i)
				}
			}
		}
		return x.Name()
	case *ssa.Const:
		if x.Value == nil {
			return "nil"
		}
		return x.Value.ExactString()
	case *ssa.TypeAssert:
		return describeVal(e, x.X, depth+1) + ".(" + shortType(x.AssertedType) + ")"
	case *ssa.Extract:
		if ta, ok := x.Tuple.(*ssa.TypeAssert); ok && x.Index == 0 {
			return describeVal(e, ta.X, depth+1) + ".(" + shortType(ta.AssertedType) + ")"
		}
		if c, ok := x.Tuple.(*ssa.Call); ok {
			return fmt.Sprintf("%s#%d", describeCall(e, c, depth+1), x.Index)
		}
		return describeVal(e, x.Tuple, depth+1) + fmt.Sprintf("#%d", x.Index)
	case *ssa.Field:
		return describeVal(e, x.X, depth+1) + "." + canonField(x.X.Type(), x.Field)
	case *ssa.FieldAddr:
		return "&" + describeVal(e, x.X, depth+1) + "." + canonField(x.X.Type(), x.Field)
	case *ssa.IndexAddr:
		return "&" + describeVal(e, x.X, depth+1) + "[" + describeVal(e, x.Index, depth+1) + "]"
	case *ssa.Index:
		return describeVal(e, x.X, depth+1) + "[" + describeVal(e, x.Index, depth+1) + "]"
	case *ssa.UnOp:
		if x.Op == token.MUL {
			switch ad := x.X.(type) {
			case *ssa.FieldAddr:
				base := describeVal(e, ad.X, depth+1)
				if al, ok := ad.X.(*ssa.Alloc); ok && al.Comment != "" {
					base = al.Comment
					if canonNames {
						base = "local"
						// a local struct assigned exactly once: render the assigned value
						if e != nil && e.cellStores(al) == 1 {
							for _, ref := range *al.Referrers() {
								if st, ok := ref.(*ssa.Store); ok && st.Addr == ssa.Value(al) {
									base = describeVal(e, st.Val, depth+1)
								}
							}
						}
					}
				}
				return base + "." + canonField(ad.X.Type(), ad.Field)
			case *ssa.IndexAddr:
				return describeVal(e, ad.X, depth+1) + "[" + describeVal(e, ad.Index, depth+1) + "]"
			case *ssa.Alloc:
				if canonNames {
					// a variable kept in a cell only because a closure reads it: rendered as the value it
					// would be had it been lifted to a register (the store that reaches the load, or a merge)
					if e != nil {
						if cv := e.versionsOf(ad); !cv.volatile {
							if v, ok := cv.ver[x]; ok {
								if st, ok := cv.storeOf[v]; ok {
									return describeVal(e, st.Val, depth+1)
								}
								if v != 0 {
									return "φ"
								}
							}
						}
					}
					return "local"
				}
				if ad.Comment != "" {
					return ad.Comment
				}
			case *ssa.FreeVar:
				if canonNames {
					return describeVal(e, ad, depth+1)
				}
				return ad.Name()
			case *ssa.Global:
				return ad.Name()
			}
			return "*" + describeVal(e, x.X, depth+1)
		}
		return x.Op.String() + describeVal(e, x.X, depth+1)
	case *ssa.BinOp:
		return describeVal(e, x.X, depth+1) + x.Op.String() + describeVal(e, x.Y, depth+1)
	case *ssa.MakeInterface:
		return describeVal(e, x.X, depth+1)
	case *ssa.ChangeInterface:
		return describeVal(e, x.X, depth+1)
	case *ssa.ChangeType:
		return describeVal(e, x.X, depth+1)
	case *ssa.Convert:
		return describeVal(e, x.X, depth+1)
	case *ssa.Call:
		return describeCall(e, x, depth+1)
	case *ssa.Phi:
		if canonNames {
			return "φ"
		}
		if x.Comment != "" {
			return x.Comment
		}
		return "phi"
	case *ssa.Alloc:
		if canonNames {
			return "&local"
		}
		if x.Comment != "" {
			return "&" + x.Comment
		}
	case *ssa.Slice:
		s := describeVal(e, x.X, depth+1) + "["
		if x.Low != nil {
			s += describeVal(e, x.Low, depth+1)
		}
		s += ":"
		if x.High != nil {
			hs := describeVal(e, x.High, depth+1)
			// x[a:len(x)] is x[a:]
			if !canonNames || hs != "len("+describeVal(e, x.X, depth+1)+")" {
				s += hs
			}
		}
		return s + "]"
	case *ssa.Lookup:
		return describeVal(e, x.X, depth+1) + "[" + describeVal(e, x.Index, depth+1) + "]"
	case *ssa.Global:
		return x.Name()
	case *ssa.Function:
		return x.Name()
	case *ssa.MakeClosure:
		return x.Fn.Name()
	}
	return v.Name()
}

func describeCall(e *Engine, c *ssa.Call, depth int) string {
	name := "?"
	if sc := c.Call.StaticCallee(); sc != nil {
		name = sc.Name()
		if canonNames && e != nil {
			name = e.w.roleName(sc)
		}
	} else if c.Call.IsInvoke() {
		name = describeVal(e, c.Call.Value, depth+1) + "." + c.Call.Method.Name()
	} else if b, ok := c.Call.Value.(*ssa.Builtin); ok {
		name = b.Name()
	} else {
		name = describeVal(e, c.Call.Value, depth+1)
	}
	var args []string
	for _, a := range c.Call.Args {
		args = append(args, describeVal(e, a, depth+1))
	}
	return name + "(" + strings.Join(args, ",") + ")"
}

func shortType(t types.Type) string {
	return types.TypeString(t, func(p *types.Package) string { return p.Name() })
}

// ---------------------------------------------------------------------------
// nilability

// resultMayBeNil: can result i of fn be nil? (pointer / interface / slice / map results)
func (a *Audit) resultMayBeNil(fn *ssa.Function, i int, stack map[*ssa.Function]bool) bool {
	if fn.Blocks == nil {
		return false // external: trusted non-nil (documented)
	}
	if stack[fn] {
		return false
	}
	stack[fn] = true
	defer delete(stack, fn)
	for _, b := range fn.Blocks {
		if len(b.Instrs) == 0 {
			continue
		}
		ret, ok := b.Instrs[len(b.Instrs)-1].(*ssa.Return)
		if !ok || i >= len(ret.Results) {
			continue
		}
		if a.valueMayBeNil(ret.Results[i], b, stack, 0) {
			return true
		}
	}
	return false
}

// resultMayBeNilAt: like resultMayBeNil, but returns of the callee that are
// only reached when a parameter is nil are ignored when the argument at this
// call site is known to be non-nil ((*Position).Copy returns nil only for a nil receiver).
func (a *Audit) resultMayBeNilAt(fn *ssa.Function, i int, call *ssa.Call, stack map[*ssa.Function]bool) bool {
	if fn.Blocks == nil {
		return false
	}
	if stack[fn] {
		return false
	}
	stack[fn] = true
	defer delete(stack, fn)
	for _, b := range fn.Blocks {
		if len(b.Instrs) == 0 {
			continue
		}
		ret, ok := b.Instrs[len(b.Instrs)-1].(*ssa.Return)
		if !ok || i >= len(ret.Results) {
			continue
		}
		if !a.valueMayBeNil(ret.Results[i], b, stack, 0) {
			continue
		}
		infeasible := false
		for _, f := range a.e.holding(b).list() {
			if f.Kind != "nil" || f.K.Path != "" {
				continue
			}
			for pi, p := range fn.Params {
				if f.K.Root == ssa.Value(p) && pi < len(call.Call.Args) {
					if !a.valueMayBeNil(call.Call.Args[pi], call.Block(), stack, 1) {
						infeasible = true
					}
				}
			}
		}
		if !infeasible {
			return true
		}
	}
	return false
}

func nilable(t types.Type) bool {
	switch t.Underlying().(type) {
	case *types.Pointer, *types.Interface, *types.Map, *types.Slice, *types.Signature, *types.Chan:
		return true
	}
	return false
}

// valueMayBeNil: conservative for pointers produced inside the module.
func (a *Audit) valueMayBeNil(v ssa.Value, at *ssa.BasicBlock, stack map[*ssa.Function]bool, depth int) bool {
	if depth > 8 {
		return true
	}
	if at != nil && a.e.nonNilFact(v, at) {
		return false
	}
	switch x := v.(type) {
	case *ssa.Const:
		return x.Value == nil
	case *ssa.Alloc, *ssa.FieldAddr, *ssa.IndexAddr, *ssa.MakeClosure, *ssa.MakeInterface, *ssa.MakeMap, *ssa.MakeSlice, *ssa.MakeChan, *ssa.Function, *ssa.Global:
		return false
	case *ssa.Slice:
		return false
	case *ssa.Parameter:
		return a.mayNil[x]
	case *ssa.FreeVar:
		return false
	case *ssa.Phi:
		for i, op := range x.Edges {
			pred := x.Block().Preds[i]
			// evaluate on the incoming edge
			k := a.e.keyOf(op).String()
			known := false
			for _, f := range a.e.onEdge(pred, x.Block()).list() {
				if (f.Kind == "nonnil" || f.Kind == "type") && f.K.String() == k {
					known = true
				}
			}
			if known {
				continue
			}
			if a.valueMayBeNil(op, nil, stack, depth+1) {
				return true
			}
		}
		return false
	case *ssa.Call:
		if sc := x.Call.StaticCallee(); sc != nil {
			return a.resultMayBeNilAt(sc, 0, x, stack)
		}
		return false
	case *ssa.Extract:
		if c, ok := x.Tuple.(*ssa.Call); ok {
			if sc := c.Call.StaticCallee(); sc != nil {
				return a.resultMayBeNilAt(sc, x.Index, c, stack)
			}
		}
		return false
	case *ssa.UnOp:
		if x.Op == token.MUL {
			// load: optional position pointers are the module's may-nil fields
			if fa, ok := x.X.(*ssa.FieldAddr); ok {
				return isOptionalField(fa.X.Type(), fa.Field)
			}
		}
		return false
	case *ssa.Field:
		return isOptionalField(x.X.Type(), x.Field)
	case *ssa.ChangeInterface:
		return a.valueMayBeNil(x.X, at, stack, depth+1)
	case *ssa.ChangeType:
		return a.valueMayBeNil(x.X, at, stack, depth+1)
	case *ssa.TypeAssert:
		return false
	}
	return false
}

// Cursor / Module / outer are the module's optional pointers (positions are optional on every node).
func isOptionalField(t types.Type, i int) bool {
	if p, ok := t.Underlying().(*types.Pointer); ok {
		t = p.Elem()
	}
	s, ok := t.Underlying().(*types.Struct)
	if !ok || i >= s.NumFields() {
		return false
	}
	f := s.Field(i)
	if _, ok := f.Type().Underlying().(*types.Pointer); !ok {
		return false
	}
	switch f.Name() {
	case "Cursor", "cursor", "Module":
		return true
	}
	// the link of a scope to its enclosing scope (nil at the root)
	if nt, ok := t.(*types.Named); ok && nt.Obj().Name() == "Env" {
		if p, ok := f.Type().(*types.Pointer); ok && types.Identical(p.Elem(), nt) {
			return true
		}
	}
	return false
}

// propagateNil computes may-nil parameters: host-declared ones plus every
// parameter that receives a may-nil value at some call site in the closure.
func (a *Audit) propagateNil() {
	for _, fn := range a.closure {
		if idx, ok := a.hostNil[a.w.fnName(fn)]; ok {
			for _, i := range idx {
				if i < len(fn.Params) {
					a.mayNil[fn.Params[i]] = true
				}
			}
		}
	}
	for changed := true; changed; {
		changed = false
		for _, fn := range a.closure {
			for _, b := range fn.Blocks {
				for _, in := range b.Instrs {
					ci, ok := in.(ssa.CallInstruction)
					if !ok {
						continue
					}
					sc := ci.Common().StaticCallee()
					if sc == nil || !a.inClos[sc] {
						continue
					}
					args := ci.Common().Args
					for i, arg := range args {
						if i >= len(sc.Params) || !nilable(sc.Params[i].Type()) {
							continue
						}
						if _, isSlice := sc.Params[i].Type().Underlying().(*types.Slice); isSlice {
							continue
						}
						if a.mayNil[sc.Params[i]] {
							continue
						}
						tainted := false
						if _, isIface := sc.Params[i].Type().Underlying().(*types.Interface); isIface {
							tainted = a.ifaceTainted(arg, b, 0)
						} else {
							tainted = a.valueMayBeNil(arg, b, map[*ssa.Function]bool{}, 0)
						}
						if tainted {
							a.mayNil[sc.Params[i]] = true
							changed = true
						}
					}
				}
			}
		}
	}
}

// ---------------------------------------------------------------------------

func (a *Audit) run() {
	for _, fn := range a.closure {
		a.auditFunc(fn)
	}
}

func (a *Audit) auditFunc(fn *ssa.Function) {
	mark := len(a.r.Obl)
	a.auditFuncOnce(fn)
	failed := false
	for _, o := range a.r.Obl[mark:] {
		if o.Status == "violated" {
			failed = true
		}
	}
	// the function's own guards do not suffice: what all its callers guarantee about the arguments
	if failed && a.e.enableEntryFacts(fn) {
		a.r.Obl = a.r.Obl[:mark]
		a.auditFuncOnce(fn)
	}
}

func (a *Audit) auditFuncOnce(fn *ssa.Function) {
	for _, b := range fn.Blocks {
		// unreachable blocks (e.g. recover block) have no preds and are not entry
		if b != fn.Blocks[0] && len(b.Preds) == 0 && b != fn.Recover {
			continue
		}
		if a.only != nil && !a.only(b) {
			continue
		}
		for _, in := range b.Instrs {
			switch in := in.(type) {
			case *ssa.TypeAssert:
				if in.CommaOk {
					continue
				}
				ok, why := a.e.hasType(in.X, in.AssertedType, b)
				if !ok {
					why = "no dominating guard establishes the dynamic type"
				}
				a.site(fn, "assert", a.describe(in), instrPos(in), ok, why)
			case *ssa.IndexAddr:
				a.indexSite(fn, b, in, in.X, in.Index)
			case *ssa.Index:
				a.indexSite(fn, b, in, in.X, in.Index)
			case *ssa.Slice:
				a.sliceSite(fn, b, in)
			case *ssa.Panic:
				a.pendingSrc = a.w.srcExpr(in)
				a.site(fn, "panic", canonVal(a.e, in.X), instrPos(in), false, "explicit panic reachable outside a recover barrier")
			case *ssa.Lookup:
				if mt, ok := in.X.Type().Underlying().(*types.Map); ok && a.cmp && types.IsInterface(mt.Key()) {
					ok, why := a.comparableValue(in.Index, b)
					a.site(fn, "hash", a.describe(in.Index), instrPos(in), ok, why)
				}
			case *ssa.BinOp:
				if a.cmp && (in.Op == token.EQL || in.Op == token.NEQ) && types.IsInterface(in.X.Type()) && types.IsInterface(in.Y.Type()) && !isNilConst(in.X) && !isNilConst(in.Y) {
					okX, whyX := a.comparableValue(in.X, b)
					okY, whyY := a.comparableValue(in.Y, b)
					why := whyX
					if !okX {
						why = whyY
					}
					if !okX && !okY {
						why = "both operands can hold values of one uncomparable type (" + whyX + "; " + whyY + "): Go panics when it compares them"
					}
					a.site(fn, "compare", a.describe(in.X)+" "+in.Op.String()+" "+a.describe(in.Y), instrPos(in), okX || okY, why)
				}
				if in.Op == token.SHL || in.Op == token.SHR {
					// a shift by a negative count panics: the count is unsigned, a non-negative constant, or proven >= 0
					if bt, ok := in.Y.Type().Underlying().(*types.Basic); ok && bt.Info()&types.IsUnsigned == 0 {
						if c, ok := in.Y.(*ssa.Const); !(ok && c.Value != nil && constant.Sign(c.Value) >= 0) {
							okShift := false
							if cv, isConv := in.Y.(*ssa.Convert); isConv {
								if bt2, ok := cv.X.Type().Underlying().(*types.Basic); ok && bt2.Info()&types.IsUnsigned != 0 {
									okShift = true
								}
							}
							if !okShift {
								okShift, _ = a.e.proveGE0(in.Y, b)
							}
							a.site(fn, "shift", a.describe(in), instrPos(in), okShift, map[bool]string{true: "shift count known to be non-negative", false: "shift by a signed count not known to be non-negative: a negative count panics"}[okShift])
						}
					}
				}
				if (in.Op == token.QUO || in.Op == token.REM) && isIntType(in.Type()) {
					if c, ok := in.Y.(*ssa.Const); ok && c.Value != nil && constant.Sign(c.Value) != 0 {
						continue
					}
					a.site(fn, "divide", a.describe(in), instrPos(in), false, "integer division by a value not known to be non-zero")
				}
			case *ssa.FieldAddr:
				a.derefSite(fn, b, in, in.X, "field "+fieldName(in.X.Type(), in.Field))
			case *ssa.UnOp:
				if in.Op == token.MUL {
					switch in.X.(type) {
					case *ssa.Alloc, *ssa.Global, *ssa.FieldAddr, *ssa.IndexAddr, *ssa.FreeVar:
						continue
					}
					a.derefSite(fn, b, in, in.X, "load")
				}
			case *ssa.Store:
				switch in.Addr.(type) {
				case *ssa.Alloc, *ssa.Global, *ssa.FieldAddr, *ssa.IndexAddr, *ssa.FreeVar:
					continue
				}
				a.derefSite(fn, b, in, in.Addr, "store")
			case *ssa.MapUpdate:
				if mt, ok := in.Map.Type().Underlying().(*types.Map); ok && a.cmp && types.IsInterface(mt.Key()) {
					ok, why := a.comparableValue(in.Key, b)
					a.site(fn, "hash", a.describe(in.Key), instrPos(in), ok, why)
				}
				if a.valueMayBeNil(in.Map, b, map[*ssa.Function]bool{}, 0) || a.mapMayBeNil(in.Map) {
					a.site(fn, "mapupdate", a.describe(in.Map), instrPos(in), false, "write to a map that may be nil")
				} else {
					a.site(fn, "mapupdate", a.describe(in.Map), instrPos(in), true, "map allocated before use")
				}
			case ssa.CallInstruction:
				c := in.Common()
				// a may-nil pointer boxed into the position carrier of an error: GetPosition calls a
				// value-receiver method through it
				if sc := c.StaticCallee(); sc != nil && sc.Name() == "NewLispError" && len(c.Args) == 2 {
					if mi, ok := c.Args[1].(*ssa.MakeInterface); ok {
						if _, isPtr := mi.X.Type().Underlying().(*types.Pointer); isPtr {
							mayNil := a.valueMayBeNil(mi.X, b, map[*ssa.Function]bool{}, 0)
							why := "position carrier is a pointer known to be non-nil"
							if mayNil {
								why = "a pointer that may be nil is boxed as the position carrier of an error: GetPosition calls a value-receiver method through it and panics"
							}
							a.site(fn, "carrier", canonVal(a.e, mi.X), instrPos(in), !mayNil, why)
						}
					}
				}
				// a method of reflect.Type called on reflect.TypeOf(x): TypeOf answers the nil Type for a nil interface
				if c.IsInvoke() {
					if tc, ok := c.Value.(*ssa.Call); ok {
						if sc := tc.Call.StaticCallee(); sc != nil && sc.Name() == "TypeOf" && sc.Object() != nil && sc.Object().Pkg() != nil && sc.Object().Pkg().Path() == "reflect" {
							x := tc.Call.Args[0]
							switch y := x.(type) {
							case *ssa.ChangeType:
								x = y.X
							case *ssa.ChangeInterface:
								x = y.X
							}
							if _, boxed := x.(*ssa.MakeInterface); !boxed {
								okNN := a.e.nonNilFact(x, b) || a.e.nonNilFact(tc.Call.Args[0], b)
								if !okNN {
									if ts := a.e.typeSetOf(x, b, map[ssa.Value]bool{}, 0); !ts.unknown && !ts.hasNil {
										okNN = true
									}
								}
								a.site(fn, "invoke", "TypeOf("+canonVal(a.e, x)+")."+c.Method.Name(), instrPos(in), okNN, map[bool]string{true: "the operand is known to be non-nil", false: "reflect.TypeOf of a nil interface value is the nil reflect.Type: calling a method on it panics, and a lisp value may be nil here"}[okNN])
							}
						}
					}
				}
				if c.IsInvoke() {
					if a.ifaceTainted(c.Value, b, 0) {
						a.site(fn, "invoke", a.describe(c.Value)+"."+c.Method.Name(), instrPos(in), false, "method call on an interface value that may be nil")
					}
				} else if c.StaticCallee() == nil {
					if _, isB := c.Value.(*ssa.Builtin); !isB {
						// call through a function value
						if a.funcValueMayBeNil(c.Value, b) {
							a.site(fn, "callvalue", a.describe(c.Value), instrPos(in), false, "call of a function value that may be nil")
						} else {
							a.site(fn, "callvalue", a.describe(c.Value), instrPos(in), true, "function value non-nil (guard or constructor rule)")
						}
					}
				}
				// slice -> array conversions etc. are not used in the module
			case *ssa.Send:
				// send on closed channel panics; the module never closes channels (checked by C10)
			case *ssa.SliceToArrayPointer:
				a.site(fn, "slice2array", a.describe(in.X), instrPos(in), false, "conversion can panic")
			}
		}
	}
}

// ifaceTainted: an interface value that the host may have passed as nil (a
// documented-optional parameter), followed through phis and single-assignment
// cells, and not guarded by a nil test. Interface results of module functions
// are nil only together with a non-nil error (Go idiom), which is not audited.
func (a *Audit) ifaceTainted(v ssa.Value, at *ssa.BasicBlock, depth int) bool {
	if depth > 6 {
		return false
	}
	if at != nil && a.e.nonNilFact(v, at) {
		return false
	}
	switch x := v.(type) {
	case *ssa.Parameter:
		return a.mayNil[x]
	case *ssa.Phi:
		for i, op := range x.Edges {
			pred := x.Block().Preds[i]
			k := a.e.keyOf(op).String()
			known := false
			for _, f := range a.e.onEdge(pred, x.Block()).list() {
				if (f.Kind == "nonnil" || f.Kind == "type") && f.K.String() == k {
					known = true
				}
			}
			if !known && a.ifaceTainted(op, nil, depth+1) {
				return true
			}
		}
	case *ssa.UnOp:
		if x.Op == token.MUL {
			if cell := cellOf(x.X); cell != nil {
				for _, st := range a.e.storesTo(cell) {
					if a.ifaceTainted(st.Val, nil, depth+1) {
						return true
					}
				}
			}
		}
	case *ssa.ChangeInterface:
		return a.ifaceTainted(x.X, at, depth+1)
	case *ssa.Index:
		// element of a variadic parameter slice
		return false
	case *ssa.Call:
		// the only result of a function of the module that has no error to report "none" with: nil is an answer
		if x.Call.Signature().Results().Len() != 1 {
			return false
		}
		var callees []*ssa.Function
		if sc := x.Call.StaticCallee(); sc != nil {
			callees = []*ssa.Function{sc}
		} else if x.Call.IsInvoke() {
			callees = a.w.dynCallees(x)
		}
		for _, g := range callees {
			if a.mayReturnNilIface(g, map[*ssa.Function]bool{}, 0) {
				return true
			}
		}
	}
	return false
}

// mayReturnNilIface: a function of the module whose only result is an interface hands back the nil constant on
// some return (itself or through a function of the module whose result it returns).
func (a *Audit) mayReturnNilIface(g *ssa.Function, seen map[*ssa.Function]bool, depth int) bool {
	if g == nil || seen[g] || depth > 4 || len(g.Blocks) == 0 || !inModule(g) || g.Signature.Results().Len() != 1 {
		return false
	}
	if _, isIface := g.Signature.Results().At(0).Type().Underlying().(*types.Interface); !isIface {
		return false
	}
	seen[g] = true
	for _, b := range g.Blocks {
		if len(b.Instrs) == 0 || b == g.Recover {
			continue
		}
		ret, ok := b.Instrs[len(b.Instrs)-1].(*ssa.Return)
		if !ok || len(ret.Results) != 1 {
			continue
		}
		var walk func(v ssa.Value, d int) bool
		walk = func(v ssa.Value, d int) bool {
			if d > 6 {
				return false
			}
			switch y := v.(type) {
			case *ssa.Const:
				return y.IsNil()
			case *ssa.Phi:
				for _, op := range y.Edges {
					if walk(op, d+1) {
						return true
					}
				}
			case *ssa.ChangeInterface:
				return walk(y.X, d+1)
			case *ssa.Call:
				if sc := y.Call.StaticCallee(); sc != nil {
					return a.mayReturnNilIface(sc, seen, depth+1)
				}
				if y.Call.IsInvoke() {
					for _, d2 := range a.w.dynCallees(y) {
						if a.mayReturnNilIface(d2, seen, depth+1) {
							return true
						}
					}
				}
			}
			return false
		}
		if walk(resolveRet(ret.Results[0]), 0) {
			return true
		}
	}
	return false
}

func (a *Audit) mapMayBeNil(m ssa.Value) bool {
	switch x := m.(type) {
	case *ssa.MakeMap:
		return false
	case *ssa.Phi:
		for _, op := range x.Edges {
			if a.mapMayBeNil(op) {
				return true
			}
		}
		return false
	case *ssa.UnOp:
		if fa, ok := x.X.(*ssa.FieldAddr); ok {
			// the map of a value handed in by pointer to an exported function: the host may have made the value with
			// a literal that leaves the map out (&HashMap{} is a legal empty table), which can be read but not written
			if p, isP := fa.X.(*ssa.Parameter); isP && p.Parent() != nil && p.Parent().Object() != nil && p.Parent().Object().Exported() && p.Parent().Signature.Recv() == nil {
				return true
			}
			// the map of a local copy of a value that came from outside (meta := f.Meta.(HashMap); meta.Val[k] = v)
			if al, isAl := fa.X.(*ssa.Alloc); isAl {
				for _, ref := range *al.Referrers() {
					if st, ok := ref.(*ssa.Store); ok && st.Addr == ssa.Value(al) {
						src := st.Val
						if ex, ok := src.(*ssa.Extract); ok {
							src = ex.Tuple
						}
						if ta, ok := src.(*ssa.TypeAssert); ok && types.IsInterface(ta.X.Type()) {
							return true
						}
					}
				}
			}
			// field of a struct: initialised by the module's constructors (checked by ctor rule)
			return false
		}
	case *ssa.Field:
		// field of a struct value built in this function with a MakeMap; the map of a value that came from outside
		// (an asserted lisp value, a parameter) is whatever its maker left there: HashMap{} and (hash-map) have none
		src := x.X
		if ex, ok := src.(*ssa.Extract); ok {
			src = ex.Tuple
		}
		switch y := src.(type) {
		case *ssa.TypeAssert:
			return isMalType(y.X.Type()) || types.IsInterface(y.X.Type())
		case *ssa.Parameter:
			return true
		}
		return false
	}
	return false
}

func (a *Audit) funcValueMayBeNil(v ssa.Value, b *ssa.BasicBlock) bool {
	if a.e.nonNilFact(v, b) {
		return false
	}
	switch x := v.(type) {
	case *ssa.MakeClosure, *ssa.Function:
		return false
	case *ssa.Field:
		// function-typed fields of MalFunc / Func: non-nil by the constructor rule (C04.ctor)
		return false
	case *ssa.UnOp:
		if _, ok := x.X.(*ssa.Global); ok {
			return true
		}
		return false
	case *ssa.Parameter, *ssa.FreeVar:
		return false
	}
	return false
}

func (a *Audit) derefSite(fn *ssa.Function, b *ssa.BasicBlock, in ssa.Instruction, p ssa.Value, what string) {
	if _, ok := p.Type().Underlying().(*types.Pointer); !ok {
		return
	}
	if !a.valueMayBeNil(p, b, map[*ssa.Function]bool{}, 0) {
		return // not a may-nil pointer: no obligation (keeps the count meaningful)
	}
	a.site(fn, "deref", a.describe(p)+" ("+what+")", instrPos(in), false, "dereference of a pointer that may be nil and is not guarded")
}

func (a *Audit) lenTermOf(x ssa.Value) Term {
	return Term{Kind: 1, K: a.e.keyOf(x)}
}

func (a *Audit) indexSite(fn *ssa.Function, b *ssa.BasicBlock, in ssa.Instruction, x, idx ssa.Value) {
	construct := canonVal(a.e, x) + "[" + canonVal(a.e, idx) + "]"
	a.pendingSrc = a.w.srcExpr(in)
	t := x.Type().Underlying()
	if p, ok := t.(*types.Pointer); ok {
		t = p.Elem().Underlying()
	}
	if arr, ok := t.(*types.Array); ok {
		if c, ok := idx.(*ssa.Const); ok && c.Value != nil {
			if i, ok := constant.Int64Val(c.Value); ok && i >= 0 && i < arr.Len() {
				return // statically in range: not an obligation
			}
		}
		a.site(fn, "index", construct, instrPos(in), false, "array index not constant in range")
		return
	}
	// slice or string: need 0 <= idx and idx <= len-1
	lt, ltOff := a.lenTermOf(x), int64(0)
	if mk, ok := x.(*ssa.MakeSlice); ok {
		// len(make([]T, n, …)) is n
		if t, off, ok := a.e.linOf(mk.Len); ok {
			lt, ltOff = t, off
		}
	}
	okLo, whyLo := a.e.proveGE0(idx, b)
	okHi, whyHi := a.e.proveLE(idx, 0, lt, ltOff-1, b)
	if !okHi && okLo {
		// the result of Find(String)Submatch on a constant pattern is nil or has 1+NumSubexp elements
		if n, ok := a.w.submatchLen(x); ok {
			if k, isK := idx.(*ssa.Const); isK && k.Value != nil && k.Value.Kind() == constant.Int && k.Int64() < int64(n) && !a.valueMayBeNil(x, b, map[*ssa.Function]bool{}, 0) {
				okHi, whyHi = true, fmt.Sprintf("a non-nil result of the pattern's Submatch has %d elements", n)
			}
		}
	}
	if okLo && okHi {
		a.site(fn, "index", construct, instrPos(in), true, "0 <= index: "+whyLo+"; index < len: "+whyHi)
		return
	}
	why := ""
	if !okLo {
		why += "lower bound not proven (" + whyLo + ") "
	}
	if !okHi {
		why += "upper bound not proven (" + whyHi + ")"
	}
	a.site(fn, "index", construct, instrPos(in), false, why)
}

// proveGE0: 0 <= v
func (e *Engine) proveGE0(v ssa.Value, b *ssa.BasicBlock) (bool, string) {
	if e.ge0Depth < 4 {
		e.ge0Depth++
		defer func() { e.ge0Depth-- }()
		switch x := v.(type) {
		case *ssa.Call:
			// the result of a module function all of whose returns are non-negative (clampCount)
			if callee := x.Call.StaticCallee(); callee != nil && inModule(callee) && len(callee.Blocks) > 0 && callee.Signature.Results().Len() == 1 && isIntType(callee.Signature.Results().At(0).Type()) {
				all, n := true, 0
				for _, cb := range callee.Blocks {
					if ret, ok := cb.Instrs[len(cb.Instrs)-1].(*ssa.Return); ok {
						n++
						if ok2, _ := e.proveGE0(ret.Results[0], cb); !ok2 {
							all = false
						}
					}
				}
				if all && n > 0 {
					return true, "every return of " + callee.Name() + " is non-negative"
				}
			}
		case *ssa.Parameter:
			// a parameter of an unexported function: non-negative at every call
			if fn := x.Parent(); fn != nil && fn.Object() != nil && !fn.Object().Exported() && fn.Parent() == nil && !e.w.isRegistered(fn) {
				sites := e.callSites(fn)
				all := len(sites) > 0
				for _, cs := range sites {
					idx := -1
					for i, q := range fn.Params {
						if q == x {
							idx = i
						}
					}
					if idx < 0 || idx >= len(cs.Common().Args) {
						all = false
						break
					}
					if ok2, _ := e.proveGE0(cs.Common().Args[idx], cs.Block()); !ok2 {
						all = false
					}
				}
				if all {
					return true, "non-negative at every call of " + fn.Name()
				}
			}
		}
	}
	return e.proveGE0Local(v, b)
}

func (e *Engine) proveGE0Local(v ssa.Value, b *ssa.BasicBlock) (bool, string) {
	t, off, ok := e.linOf(v)
	if !ok {
		return false, "not linear"
	}
	if t.Kind == 0 {
		return off >= 0, fmt.Sprintf("constant %d", off)
	}
	if t.Kind == 1 && off >= 0 {
		return true, "len >= 0"
	}
	var extra []Fact
	// monotone non-negative struct field
	if ld, ok := v.(*ssa.UnOp); ok && ld.Op == token.MUL && off >= 0 {
		if fa, ok := ld.X.(*ssa.FieldAddr); ok {
			if fv := structField(fa.X.Type(), fa.Field); fv != nil && e.nonNegField(fv) {
				return true, "field " + fv.Name() + " is only ever set to 0 or incremented"
			}
		}
	}
	e.phiFacts(v, map[ssa.Value]bool{}, &extra)
	g := e.buildGraph(e.holding(b), extra)
	// 0 - t <= off   <=>  t + off >= 0
	bd := g.boundWith(Term{}, t)
	if bd <= off {
		return true, fmt.Sprintf("0 - %s <= %d derivable", t, bd)
	}
	// a merge of values each of which is non-negative on the edge it arrives by (if n < 0 { n = 0 })
	if phi, ok := v.(*ssa.Phi); ok && off == 0 {
		all := len(phi.Edges) > 0
		for i, op := range phi.Edges {
			ot, ooff, ok := e.linOf(op)
			switch {
			case !ok:
				all = false
			case ot.Kind == 0:
				all = all && ooff >= 0
			case ot.Kind == 1:
				all = all && ooff >= 0
			default:
				ge := e.buildGraph(e.onEdge(phi.Block().Preds[i], phi.Block()), nil)
				all = all && ge.boundWith(Term{}, ot) <= ooff
			}
		}
		if all {
			return true, "non-negative on every incoming edge"
		}
	}
	return false, fmt.Sprintf("best bound 0 - %s <= %s, need <= %d", t, fmtInf(bd), off)
}

func (a *Audit) sliceSite(fn *ssa.Function, b *ssa.BasicBlock, in *ssa.Slice) {
	t := in.X.Type().Underlying()
	if p, ok := t.(*types.Pointer); ok {
		if _, ok := p.Elem().Underlying().(*types.Array); ok && in.Low == nil && in.High == nil {
			return // x[:] of an array: cannot fail
		}
	}
	if in.Low == nil && in.High == nil {
		return
	}
	construct := a.describe(in)
	lt, ltOff := a.lenTermOf(in.X), int64(0)
	if mk, ok := in.X.(*ssa.MakeSlice); ok {
		// len(make([]T, n, …)) is n
		if t, off, ok := a.e.linOf(mk.Len); ok {
			lt, ltOff = t, off
		}
	}
	var problems []string
	var reasons []string
	// s[:strings.LastIndex(s, sep)] and s[strings.LastIndex(s, sep)+1:] - facts about the standard library:
	// -1 <= LastIndex(s, sep) <= len(s)-len(sep); and a runtime function name always contains a dot
	if isStringVal(in.X) {
		if in.Low == nil && in.High != nil {
			if s, sep, ok := lastIndexOf(in.High); ok && sameStringValue(s, in.X) {
				if sep == "." && a.funcNameDerived(s, 0) {
					a.site(fn, "slice", construct, instrPos(in), true, "LastIndex(s, \".\") of a runtime function name (always package-qualified) is >= 0 and <= len(s)")
					return
				}
			}
		}
		if in.High == nil && in.Low != nil {
			if bo, ok := in.Low.(*ssa.BinOp); ok && bo.Op == token.ADD {
				if k, isK := bo.Y.(*ssa.Const); isK && k.Value != nil && k.Value.Kind() == constant.Int {
					if s, sep, ok := lastIndexOf(bo.X); ok && sameStringValue(s, in.X) && k.Int64() >= 1 && k.Int64() <= int64(len(sep)) {
						a.site(fn, "slice", construct, instrPos(in), true, "-1 <= LastIndex(s, sep) <= len(s)-len(sep), so 0 <= LastIndex+k <= len(s) for 1 <= k <= len(sep)")
						return
					}
				}
			}
		}
	}
	// low: 0 <= low ; low <= high (or len)
	if in.Low != nil {
		if ok, why := a.e.proveGE0(in.Low, b); !ok {
			problems = append(problems, "0 <= low not proven ("+why+")")
		} else {
			reasons = append(reasons, "0<=low")
		}
	}
	if in.High != nil {
		// high <= len  (stricter than Go's cap check: no reslice beyond the length)
		if ok, why := a.e.proveLE(in.High, 0, lt, ltOff, b); !ok {
			problems = append(problems, "high <= len not proven ("+why+")")
		} else {
			reasons = append(reasons, "high<=len")
		}
		if in.Low != nil {
			ht, ho, okh := a.e.linOf(in.High)
			if !okh {
				problems = append(problems, "high not linear")
			} else if ok, why := a.e.proveLE(in.Low, 0, ht, ho, b, in.High); !ok {
				problems = append(problems, "low <= high not proven ("+why+")")
			} else {
				reasons = append(reasons, "low<=high")
			}
		} else {
			if ok, why := a.e.proveGE0(in.High, b); !ok {
				problems = append(problems, "0 <= high not proven ("+why+")")
			}
		}
	} else if in.Low != nil {
		if ok, why := a.e.proveLE(in.Low, 0, lt, ltOff, b); !ok {
			// a sub-match of a constant pattern is at least as long as the shortest text its group can match
			proved := false
			if k, isK := in.Low.(*ssa.Const); isK && k.Value != nil {
				if pat, g, ok := a.w.regexOfSubmatch(in.X); ok {
					if min, ok := regexGroupMinLen(pat, g); ok && k.Int64() <= int64(min) {
						proved = true
						reasons = append(reasons, fmt.Sprintf("low<=len: group %d of %q takes part in every match and matches at least %d bytes", g, pat, min))
					}
				}
			}
			if !proved {
				problems = append(problems, "low <= len not proven ("+why+")")
			}
		} else {
			reasons = append(reasons, "low<=len")
		}
	}
	a.site(fn, "slice", construct, instrPos(in), len(problems) == 0, strings.Join(append(reasons, problems...), "; "))
}

// comparableValue: every dynamic type the interface value can hold is comparable, so using it as a map key or
// comparing it with == cannot panic ("hash of unhashable type", "comparing uncomparable type").
func (a *Audit) comparableValue(v ssa.Value, b *ssa.BasicBlock) (bool, string) {
	if !types.IsInterface(v.Type()) {
		return types.Comparable(v.Type()), "static type " + shortType(v.Type())
	}
	// only the lisp value interface and the empty interface carry slices, maps and function-holding structs here;
	// errors, reflect.Type and the like are compared by the identity of the pointers they hold
	if it, ok := v.Type().Underlying().(*types.Interface); ok && it.NumMethods() > 0 {
		return true, "an interface with methods (" + shortType(v.Type()) + "): its implementations are pointers or comparable structs"
	}
	// errors and other non-lisp interfaces are compared by identity of pointers in practice; the lisp value
	// interface is the one that carries slices, maps and functions
	ts := a.e.typeSetOf(v, b, map[ssa.Value]bool{}, 0)
	if ts.unknown {
		return false, "the value can hold any dynamic type, slices, maps and function-carrying structs included"
	}
	for _, t := range ts.ts {
		if !types.Comparable(t) {
			return false, "the value can hold a " + shortType(t) + ", which Go cannot compare or hash"
		}
	}
	return true, "can only hold " + ts.String() + ", all comparable"
}

// unusedExemptions reports exemptions that matched nothing (stale table entries fail the run).
func (a *Audit) unusedExemptions() {
	var keys []string
	for k := range a.exempt {
		if !a.usedEx[k] {
			keys = append(keys, k)
		}
	}
	sort.Strings(keys)
	for _, k := range keys {
		a.r.addRaw(a.rule+".exemption", "-", k, "-", "info", "exemption not needed on this tree (construct absent or discharged by a guard)")
	}
}

// lastIndexOf: v is strings.LastIndex(s, "sep") / strings.Index(s, "sep") with a constant separator.
func lastIndexOf(v ssa.Value) (ssa.Value, string, bool) {
	c, ok := v.(*ssa.Call)
	if !ok || !isStringsFn(c, "LastIndex") {
		return nil, "", false
	}
	sep, ok := constString(c.Call.Args[1])
	if !ok || sep == "" {
		return nil, "", false
	}
	return c.Call.Args[0], sep, true
}

// sameStringValue: a and b are the same value: the same register, or two loads of one local variable with no
// assignment that could run between them.
func sameStringValue(a, b ssa.Value) bool {
	if a == b {
		return true
	}
	la, ok1 := a.(*ssa.UnOp)
	lb, ok2 := b.(*ssa.UnOp)
	if !ok1 || !ok2 || la.Op != token.MUL || lb.Op != token.MUL {
		return false
	}
	ca, cb := cellOf(la.X), cellOf(lb.X)
	if ca == nil || ca != cb {
		return false
	}
	_, ok := reachingStore(la)
	if !ok {
		return false
	}
	sa, _ := reachingStore(la)
	sb, okb := reachingStore(lb)
	return okb && sa == sb
}

// reachingStore: the one assignment of a local variable that a load can see: it dominates the load and no other
// assignment of the variable can run between it and the load.
func reachingStore(ld *ssa.UnOp) (*ssa.Store, bool) {
	cell := cellOf(ld.X)
	if cell == nil {
		return nil, false
	}
	var stores []*ssa.Store
	for _, f := range append([]*ssa.Function{cell.Parent()}, allAnon(cell.Parent())...) {
		for _, b := range f.Blocks {
			for _, in := range b.Instrs {
				if st, ok := in.(*ssa.Store); ok && cellOf(st.Addr) == cell {
					stores = append(stores, st)
				}
			}
		}
	}
	before := func(x, y ssa.Instruction) bool { // x strictly before y in one block
		for _, in := range x.Block().Instrs {
			if in == x {
				return true
			}
			if in == y {
				return false
			}
		}
		return false
	}
	var best *ssa.Store
	for _, st := range stores {
		if st.Parent() != ld.Parent() {
			return nil, false // assigned by a closure: any time
		}
		dom := (st.Block() == ld.Block() && before(st, ld)) || (st.Block() != ld.Block() && st.Block().Dominates(ld.Block()))
		if !dom {
			// must not be able to reach the load
			if st.Block() == ld.Block() {
				if before(st, ld) {
					return nil, false
				}
				// after the load in the same block: reaches it only around a loop
				if blockReaches(st.Block(), ld.Block(), false) {
					return nil, false
				}
				continue
			}
			if blockReaches(st.Block(), ld.Block(), false) {
				return nil, false
			}
			continue
		}
		if best == nil || best.Block().Dominates(st.Block()) && (best.Block() != st.Block() || before(best, st)) {
			best = st
		}
	}
	if best == nil {
		return nil, false
	}
	// every dominating store other than best must precede best
	for _, st := range stores {
		if st == best {
			continue
		}
		dom := (st.Block() == ld.Block() && before(st, ld)) || (st.Block() != ld.Block() && st.Block().Dominates(ld.Block()))
		if dom && !((st.Block() == best.Block() && before(st, best)) || (st.Block() != best.Block() && st.Block().Dominates(best.Block()))) {
			return nil, false
		}
	}
	return best, true
}

// funcNameDerived: v is the name of a Go function as the runtime reports it (package-qualified), possibly
// case-folded or trimmed, directly or through a local variable.
func (a *Audit) funcNameDerived(v ssa.Value, depth int) bool {
	if depth > 8 {
		return false
	}
	switch x := v.(type) {
	case *ssa.Call:
		if c := x.Call.StaticCallee(); c != nil {
			if c.Name() == "Name" && fnPkgPath(c) == "runtime" {
				return true
			}
			if isStringsFn(x, "ToLower", "ToUpper", "TrimSpace", "Clone") {
				return a.funcNameDerived(x.Call.Args[0], depth+1)
			}
		}
	case *ssa.UnOp:
		if x.Op == token.MUL {
			if st, ok := reachingStore(x); ok {
				return a.funcNameDerived(st.Val, depth+1)
			}
		}
	case *ssa.Phi:
		for _, op := range x.Edges {
			if !a.funcNameDerived(op, depth+1) {
				return false
			}
		}
		return len(x.Edges) > 0
	}
	return false
}
