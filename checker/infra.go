package main

import (
	"encoding/json"
	"fmt"
	"go/ast"
	"go/constant"
	"go/token"
	"go/types"
	"os"
	"path/filepath"
	"sort"
	"strings"
	"time"

	"golang.org/x/tools/go/packages"
	"golang.org/x/tools/go/ssa"
	"golang.org/x/tools/go/ssa/ssautil"
)

const modPath = "github.com/jig/lisp"

// World is everything loaded from the repository under analysis.
type World struct {
	Repo   string
	Tags   string
	Pkgs   []*packages.Package
	ByPath map[string]*packages.Package
	Prog   *ssa.Program
	Fset   *token.FileSet
	SPkg   map[string]*ssa.Package
	// all functions (including anonymous and instantiated generics) of the module
	Funcs    []*ssa.Function
	regs     []*Registration // cache
	lisp     map[string]*LispFile
	exprAt   map[token.Pos]ast.Expr
	assignAt map[token.Pos]*ast.AssignStmt
	regNames map[string]string
	pfvDepth int
}

func loadWorld(repo string, tests bool, tags string, env []string) (*World, error) {
	cfg := &packages.Config{
		Mode:  packages.LoadAllSyntax,
		Dir:   repo,
		Tests: tests,
		Env:   append(append(os.Environ(), "GOFLAGS=-mod=mod", "GOPROXY=off", "GOSUMDB=off", "GOTOOLCHAIN=local", "GOWORK=off"), env...),
	}
	if tags != "" {
		cfg.BuildFlags = []string{"-tags=" + tags}
	}
	pkgs, err := packages.Load(cfg, "./...")
	if err != nil {
		return nil, err
	}
	w := &World{Repo: repo, Tags: tags, Pkgs: pkgs, ByPath: map[string]*packages.Package{}, SPkg: map[string]*ssa.Package{}}
	nerr := 0
	packages.Visit(pkgs, nil, func(p *packages.Package) {
		for _, e := range p.Errors {
			fmt.Fprintf(os.Stderr, "load error: %s: %v\n", p.PkgPath, e)
			nerr++
		}
	})
	if nerr > 0 {
		return nil, fmt.Errorf("%d load/type errors", nerr)
	}
	own := 0
	for _, p := range pkgs {
		if strings.HasPrefix(p.PkgPath, modPath) {
			own++
		}
		if _, dup := w.ByPath[p.PkgPath]; !dup || !strings.HasSuffix(p.ID, "]") {
			w.ByPath[p.PkgPath] = p
		}
	}
	if own < 20 {
		return nil, fmt.Errorf("only %d packages of %s loaded (expected >= 20)", own, modPath)
	}
	prog, spkgs := ssautil.AllPackages(pkgs, ssa.InstantiateGenerics)
	prog.Build()
	w.Prog = prog
	w.Fset = prog.Fset
	for i, sp := range spkgs {
		if sp != nil {
			if _, dup := w.SPkg[pkgs[i].PkgPath]; !dup || !strings.HasSuffix(pkgs[i].ID, "]") {
				w.SPkg[pkgs[i].PkgPath] = sp
			}
		}
	}
	for fn := range ssautil.AllFunctions(prog) {
		if fn.Blocks == nil {
			continue
		}
		if p := fnPkgPath(fn); strings.HasPrefix(p, modPath) {
			w.Funcs = append(w.Funcs, fn)
		}
	}
	sort.Slice(w.Funcs, func(i, j int) bool { return w.Funcs[i].String() < w.Funcs[j].String() })
	return w, nil
}

func fnPkgPath(fn *ssa.Function) string {
	for f := fn; f != nil; f = f.Parent() {
		if f.Pkg != nil {
			return f.Pkg.Pkg.Path()
		}
		if o := f.Origin(); o != nil && o.Pkg != nil {
			return o.Pkg.Pkg.Path()
		}
	}
	return ""
}

// Fn finds a package-level function or method by name: "EVAL", "(*Env).Get", "(LispError).Error".
func (w *World) Fn(pkgRel, name string) *ssa.Function {
	path := modPath
	if pkgRel != "" {
		path += "/" + pkgRel
	}
	sp := w.SPkg[path]
	if sp == nil {
		return nil
	}
	if strings.HasPrefix(name, "(") {
		end := strings.Index(name, ").")
		recv, meth := name[1:end], name[end+2:]
		ptr := strings.HasPrefix(recv, "*")
		recv = strings.TrimPrefix(recv, "*")
		t := sp.Type(recv)
		if t == nil {
			return nil
		}
		var T types.Type = t.Type()
		if ptr {
			T = types.NewPointer(T)
		}
		sel := w.Prog.MethodSets.MethodSet(T).Lookup(sp.Pkg, meth)
		if sel == nil {
			return nil
		}
		return w.Prog.MethodValue(sel)
	}
	if f := sp.Func(name); f != nil {
		return f
	}
	// the name is gone: the function that plays its part (anchors.go)
	return w.anchorOf(pkgRel, name)
}

// Anon returns the anonymous functions (transitively) nested in fn.
func allAnon(fn *ssa.Function) []*ssa.Function {
	var out []*ssa.Function
	for _, a := range fn.AnonFuncs {
		out = append(out, a)
		out = append(out, allAnon(a)...)
	}
	return out
}

func (w *World) pos(p token.Pos) string {
	if !p.IsValid() {
		return "-"
	}
	ps := w.Fset.Position(p)
	rel, err := filepath.Rel(w.Repo, ps.Filename)
	if err != nil || strings.HasPrefix(rel, "..") {
		rel = ps.Filename
	}
	return fmt.Sprintf("%s:%d", rel, ps.Line)
}

func (w *World) fnName(fn *ssa.Function) string {
	s := fn.String()
	s = strings.ReplaceAll(s, modPath+"/", "")
	s = strings.ReplaceAll(s, modPath+".", "lisp.")
	return s
}

// instrPos returns a usable position for an instruction (falling back to operands / block neighbours).
func instrPos(in ssa.Instruction) token.Pos {
	if p := in.Pos(); p.IsValid() {
		return p
	}
	if v, ok := in.(ssa.Value); ok {
		_ = v
	}
	for _, op := range in.Operands(nil) {
		if *op != nil {
			if p := (*op).Pos(); p.IsValid() {
				return p
			}
		}
	}
	b := in.Block()
	for _, other := range b.Instrs {
		if p := other.Pos(); p.IsValid() {
			return p
		}
	}
	return token.NoPos
}

// ---------------------------------------------------------------------------
// Obligations and reports

type Obligation struct {
	Rule      string `json:"rule"`
	Func      string `json:"func"`
	Construct string `json:"construct"`
	Pos       string `json:"pos"`
	Status    string `json:"status"` // discharged | violated | exempt | undecided | info
	Detail    string `json:"detail,omitempty"`
}

func (o Obligation) Key() string { return o.Rule + " | " + o.Func + " | " + o.Construct }

type Floor struct {
	Rule string `json:"rule"`
	What string `json:"what"`
	Got  int    `json:"got"`
	Want int    `json:"want_at_least"`
}

type Report struct {
	Prop        string
	Tier        string
	W           *World
	Obl         []Obligation
	Floors      []Floor
	Notes       []string
	Assumptions []string
	Rules       map[string]string // rule id -> description
	FuncsSeen   map[string]bool
	start       time.Time
}

func newReport(prop, tier string, w *World) *Report {
	return &Report{Prop: prop, Tier: tier, W: w, Rules: map[string]string{}, FuncsSeen: map[string]bool{}, start: time.Now()}
}

func (r *Report) rule(id, desc string) { r.Rules[id] = desc }

func (r *Report) add(rule string, fn *ssa.Function, construct string, pos token.Pos, status, detail string) {
	fname := "-"
	if fn != nil {
		fname = r.W.fnName(fn)
		r.FuncsSeen[fname] = true
	}
	r.Obl = append(r.Obl, Obligation{Rule: rule, Func: fname, Construct: construct, Pos: r.W.pos(pos), Status: status, Detail: detail})
}

func (r *Report) addRaw(rule, fname, construct, pos, status, detail string) {
	r.Obl = append(r.Obl, Obligation{Rule: rule, Func: fname, Construct: construct, Pos: pos, Status: status, Detail: detail})
}

func (r *Report) ok(rule string, fn *ssa.Function, construct string, pos token.Pos, detail string) {
	r.add(rule, fn, construct, pos, "discharged", detail)
}
func (r *Report) bad(rule string, fn *ssa.Function, construct string, pos token.Pos, detail string) {
	r.add(rule, fn, construct, pos, "violated", detail)
}
func (r *Report) undecided(rule string, fn *ssa.Function, construct string, pos token.Pos, detail string) {
	r.add(rule, fn, construct, pos, "undecided", detail)
}
func (r *Report) check(cond bool, rule string, fn *ssa.Function, construct string, pos token.Pos, okDetail, badDetail string) bool {
	if cond {
		r.ok(rule, fn, construct, pos, okDetail)
	} else {
		r.bad(rule, fn, construct, pos, badDetail)
	}
	return cond
}

func (r *Report) floor(rule, what string, got, want int) {
	r.Floors = append(r.Floors, Floor{rule, what, got, want})
}

func (r *Report) count(rule string) int {
	n := 0
	for _, o := range r.Obl {
		if o.Rule == rule {
			n++
		}
	}
	return n
}

// ---------------------------------------------------------------------------
// Known findings

type KnownFinding struct {
	Property  string `json:"property"`
	Rule      string `json:"rule"`
	Key       string `json:"construct_key"`
	Status    string `json:"status"` // open | fixed
	Commit    string `json:"commit,omitempty"`
	WhatFails string `json:"what_fails"`
	Input     string `json:"demonstrating_input,omitempty"`
}

func loadKnown(path string) ([]KnownFinding, error) {
	b, err := os.ReadFile(path)
	if err != nil {
		return nil, err
	}
	var f struct {
		Findings []KnownFinding `json:"findings"`
	}
	if err := json.Unmarshal(b, &f); err != nil {
		return nil, err
	}
	return f.Findings, nil
}

// finish writes evidence, prints the verdict lines and returns the exit code.
func (r *Report) finish(evidencePath, knownPath string) int {
	known, err := loadKnown(knownPath)
	if err != nil {
		fmt.Printf("UNDECIDED property=%s cannot read known findings: %v\n", r.Prop, err)
		return 2
	}
	open := map[string]KnownFinding{}
	for _, k := range known {
		if k.Property == r.Prop && k.Status == "open" {
			open[k.Key] = k
		}
	}
	var viol, undec, knownHit []Obligation
	counts := map[string]int{}
	perRule := map[string]map[string]int{}
	for _, o := range r.Obl {
		counts[o.Status]++
		if perRule[o.Rule] == nil {
			perRule[o.Rule] = map[string]int{}
		}
		perRule[o.Rule][o.Status]++
		switch o.Status {
		case "violated":
			if _, ok := open[o.Key()]; ok {
				knownHit = append(knownHit, o)
			} else {
				viol = append(viol, o)
			}
		case "undecided":
			undec = append(undec, o)
		}
	}
	for _, f := range r.Floors {
		if f.Got < f.Want {
			undec = append(undec, Obligation{Rule: f.Rule, Func: "-", Construct: "floor: " + f.What, Status: "undecided",
				Detail: fmt.Sprintf("found %d instances, confirmed by reading at least %d: the rule would pass vacuously", f.Got, f.Want)})
		}
	}
	sort.Slice(r.Obl, func(i, j int) bool { return r.Obl[i].Key() < r.Obl[j].Key() })

	// samples: violated first, then a spread of discharged/exempt obligations
	var samples []Obligation
	samples = append(samples, viol...)
	samples = append(samples, knownHit...)
	seenRule := map[string]int{}
	for _, o := range r.Obl {
		if o.Status == "violated" {
			continue
		}
		if seenRule[o.Rule] < 3 && len(samples) < 60 {
			samples = append(samples, o)
			seenRule[o.Rule]++
		}
	}
	total := len(r.Obl)
	discharged := counts["discharged"] + counts["exempt"] + counts["info"]
	ruleList := []string{}
	for id := range r.Rules {
		ruleList = append(ruleList, id)
	}
	sort.Strings(ruleList)
	rulesOut := []map[string]interface{}{}
	for _, id := range ruleList {
		rulesOut = append(rulesOut, map[string]interface{}{"rule": id, "what": r.Rules[id], "obligations": perRule[id]})
	}
	funcs := []string{}
	for f := range r.FuncsSeen {
		funcs = append(funcs, f)
	}
	sort.Strings(funcs)
	expl := fmt.Sprintf("Static analysis of the working tree at %s (go/packages + go/types + go/ssa, no code executed). "+
		"%d obligations generated by %d rules over %d functions: %d discharged, %d exempt (single named construct with reason), %d informational, %d violated (%d listed as known findings), %d undecided. "+
		"Each obligation is keyed rule|function|construct; floors guard against vacuous passes.",
		r.W.Repo, total, len(r.Rules), len(funcs), counts["discharged"], counts["exempt"], counts["info"], counts["violated"], len(knownHit), len(undec))
	ev := map[string]interface{}{
		"property_id": r.Prop,
		"tier":        r.Tier,
		"seed":        0,
		"level":       "other",
		"coverage": map[string]interface{}{
			"explanation":        expl,
			"obligations":        total,
			"discharged":         discharged,
			"violated":           len(viol) + len(knownHit),
			"undecided":          len(undec),
			"rules":              rulesOut,
			"floors":             r.Floors,
			"functions_analysed": funcs,
			"samples":            samples,
			"notes":              r.Notes,
			"checker_cmd":        strings.Join(os.Args, " "),
			"packages_loaded":    len(r.W.Pkgs),
			"build_tags":         r.W.Tags,
		},
		"assumptions": append([]string{
			"go/types and go/ssa (golang.org/x/tools v0.29.0) model the program correctly",
			"no unsafe, cgo or go:linkname in the module (checked), reflection only in lib/call and printer",
			"third-party modules as pinned in go.sum; github.com/jig/scanner is trusted",
			"host-supplied Go functions and Stepper callbacks do not touch interpreter state; env arguments are the repo's *env.Env and non-nil",
		}, r.Assumptions...),
		"wall_s":     time.Since(r.start).Seconds(),
		"violations": len(viol),
	}
	if evidencePath != "" {
		os.MkdirAll(filepath.Dir(evidencePath), 0o755)
		b, _ := json.MarshalIndent(ev, "", " ")
		if err := os.WriteFile(evidencePath, b, 0o644); err != nil {
			fmt.Printf("UNDECIDED property=%s cannot write evidence: %v\n", r.Prop, err)
			return 2
		}
	}
	fmt.Printf("property=%s tier=%s obligations=%d discharged=%d exempt=%d info=%d violated=%d undecided=%d functions=%d\n",
		r.Prop, r.Tier, total, counts["discharged"], counts["exempt"], counts["info"], counts["violated"], len(undec), len(funcs))
	for _, id := range ruleList {
		fmt.Printf("  rule %-24s %v\n", id, perRule[id])
	}
	for _, o := range knownHit {
		k := open[o.Key()]
		fmt.Printf("KNOWN-FINDING: property=%s %s [%s at %s]\n", r.Prop, k.WhatFails, o.Key(), o.Pos)
	}
	for _, o := range undec {
		fmt.Printf("UNDECIDED: %s at %s: %s\n", o.Key(), o.Pos, o.Detail)
	}
	if len(viol) > 0 {
		vpath := strings.TrimSuffix(evidencePath, ".json") + ".violations.json"
		if evidencePath == "" {
			vpath = "/dev/null"
		}
		b, _ := json.MarshalIndent(viol, "", " ")
		os.WriteFile(vpath, b, 0o644)
		for _, o := range viol {
			fmt.Printf("  violated: %s at %s: %s\n", o.Key(), o.Pos, o.Detail)
		}
		fmt.Printf("VIOLATION property=%s replay=%s\n", r.Prop, vpath)
		return 1
	}
	if len(undec) > 0 {
		// An obligation that could not be decided is a proof obligation that was not discharged: the property is
		// not established on this tree, and the interface knows two answers only. (LISPCHECK_STRICT=1, used by the
		// checker's own regression scripts, keeps the two cases apart: exit 2, no VIOLATION line.)
		if os.Getenv("LISPCHECK_STRICT") == "1" {
			return 2
		}
		vpath := strings.TrimSuffix(evidencePath, ".json") + ".violations.json"
		if evidencePath == "" {
			vpath = "/dev/null"
		}
		b, _ := json.MarshalIndent(undec, "", " ")
		os.WriteFile(vpath, b, 0o644)
		fmt.Printf("VIOLATION property=%s replay=%s\n", r.Prop, vpath)
		return 1
	}
	if evidencePath != "" {
		os.Remove(strings.TrimSuffix(evidencePath, ".json") + ".violations.json") // nothing to replay any more
	}
	return 0
}

// isErrorType: the predeclared interface type error.
func isErrorType(t types.Type) bool {
	return types.Identical(t, types.Universe.Lookup("error").Type())
}

// withPkgHelpers: fn and the unexported, non-method functions of its own package statically reachable from it.
func (w *World) withPkgHelpers(fn *ssa.Function) []*ssa.Function {
	out := []*ssa.Function{fn}
	seen := map[*ssa.Function]bool{fn: true}
	for i := 0; i < len(out); i++ {
		f := out[i]
		for _, g := range append([]*ssa.Function{f}, allAnon(f)...) {
			for _, b := range g.Blocks {
				for _, in := range b.Instrs {
					ci, ok := in.(ssa.CallInstruction)
					if !ok {
						continue
					}
					c := ci.Common().StaticCallee()
					if c == nil || seen[c] || c.Pkg != fn.Pkg || c.Parent() != nil || len(c.Blocks) == 0 || c.Object() == nil || c.Object().Exported() {
						continue
					}
					seen[c] = true
					out = append(out, c)
				}
			}
		}
	}
	return out
}

// tableRows resolves arguments that are fields of the element of a range loop over a slice literal of structs
// (registrations written as a table walked by a loop): for field selections v1, v2 … of one element it returns,
// per row of the literal, the values stored into those fields.
func tableRows(vals ...ssa.Value) [][]ssa.Value {
	type sel struct {
		arr   *ssa.Alloc
		field int
	}
	var sels []sel
	for _, v := range vals {
		if mi, ok := v.(*ssa.MakeInterface); ok {
			v = mi.X
		}
		if ct, ok := v.(*ssa.ChangeType); ok {
			v = ct.X
		}
		var base ssa.Value
		field := -1
		switch x := v.(type) {
		case *ssa.Field:
			base, field = x.X, x.Field
		case *ssa.UnOp:
			if fa, ok := x.X.(*ssa.FieldAddr); ok && x.Op == token.MUL {
				base, field = fa.X, fa.Field
			}
		}
		if base == nil {
			return nil
		}
		// base: the loop's element: *(&slice[i]) or a local it was copied into, or the address &slice[i]
		var ia *ssa.IndexAddr
		var find func(b ssa.Value, depth int)
		find = func(b ssa.Value, depth int) {
			if depth > 5 || ia != nil {
				return
			}
			switch y := b.(type) {
			case *ssa.IndexAddr:
				ia = y
			case *ssa.UnOp:
				find(y.X, depth+1)
			case *ssa.Alloc:
				for _, ref := range *y.Referrers() {
					if st, ok := ref.(*ssa.Store); ok && st.Addr == ssa.Value(y) {
						find(st.Val, depth+1)
					}
				}
			case *ssa.Phi:
				for _, op := range y.Edges {
					find(op, depth+1)
				}
			}
		}
		find(base, 0)
		if ia == nil {
			return nil
		}
		var arr *ssa.Alloc
		switch s := ia.X.(type) {
		case *ssa.Slice:
			arr, _ = s.X.(*ssa.Alloc)
		case *ssa.Alloc:
			arr = s
		}
		if arr == nil {
			return nil
		}
		sels = append(sels, sel{arr, field})
	}
	if len(sels) == 0 {
		return nil
	}
	for _, s := range sels[1:] {
		if s.arr != sels[0].arr {
			return nil
		}
	}
	// rows of the literal: stores into &arr[k].field
	rows := map[int64]map[int]ssa.Value{}
	for _, ref := range *sels[0].arr.Referrers() {
		ia, ok := ref.(*ssa.IndexAddr)
		if !ok {
			continue
		}
		k, ok := ia.Index.(*ssa.Const)
		if !ok || k.Value == nil || k.Value.Kind() != constant.Int {
			continue
		}
		for _, u := range *ia.Referrers() {
			// the row built in a local composite and stored whole: arr[k] = complit
			if st, ok := u.(*ssa.Store); ok && st.Addr == ssa.Value(ia) {
				if ld, ok := st.Val.(*ssa.UnOp); ok {
					if cl, ok := ld.X.(*ssa.Alloc); ok && cl.Referrers() != nil {
						for _, cr := range *cl.Referrers() {
							cfa, ok := cr.(*ssa.FieldAddr)
							if !ok || cfa.Referrers() == nil {
								continue
							}
							for _, u2 := range *cfa.Referrers() {
								if st2, ok := u2.(*ssa.Store); ok && st2.Addr == ssa.Value(cfa) {
									if rows[k.Int64()] == nil {
										rows[k.Int64()] = map[int]ssa.Value{}
									}
									rows[k.Int64()][cfa.Field] = st2.Val
								}
							}
						}
					}
				}
				continue
			}
			fa, ok := u.(*ssa.FieldAddr)
			if !ok {
				continue
			}
			for _, u2 := range *fa.Referrers() {
				if st, ok := u2.(*ssa.Store); ok && st.Addr == ssa.Value(fa) {
					if rows[k.Int64()] == nil {
						rows[k.Int64()] = map[int]ssa.Value{}
					}
					rows[k.Int64()][fa.Field] = st.Val
				}
			}
		}
	}
	var out [][]ssa.Value
	for i := int64(0); i < int64(len(rows)); i++ {
		row, ok := rows[i]
		if !ok {
			return nil
		}
		var vs []ssa.Value
		for _, s := range sels {
			vs = append(vs, row[s.field])
		}
		out = append(out, vs)
	}
	return out
}

func fnValueOf(v ssa.Value) *ssa.Function {
	if ct, ok := v.(*ssa.ChangeType); ok {
		v = ct.X
	}
	if mi, ok := v.(*ssa.MakeInterface); ok {
		v = mi.X
	}
	switch g := v.(type) {
	case *ssa.Function:
		return g
	case *ssa.MakeClosure:
		return g.Fn.(*ssa.Function)
	}
	return nil
}

// inModule: f is a function of jig/lisp itself.
func inModule(f *ssa.Function) bool {
	return f != nil && strings.HasPrefix(fnPkgPath(f), modPath)
}

// include runs another property's check and adopts its obligations under this property, with the rule ids
// moved from oldPrefix to newPrefix: the clause of this property named in why rests on those rules.
func (r *Report) include(newPrefix, oldPrefix, why string, check func(*World, *Report), keep func(rule string) bool) {
	sub := newReport(r.Prop, r.Tier, r.W)
	check(r.W, sub)
	ren := func(id string) string { return newPrefix + strings.TrimPrefix(id, oldPrefix) }
	for id, d := range sub.Rules {
		if keep == nil || keep(id) {
			r.Rules[ren(id)] = d + " (shared with " + id + ": " + why + ")"
		}
	}
	for _, o := range sub.Obl {
		if keep == nil || keep(o.Rule) {
			o.Rule = ren(o.Rule)
			r.Obl = append(r.Obl, o)
		}
	}
	for _, f := range sub.Floors {
		if keep == nil || keep(f.Rule) {
			f.Rule = ren(f.Rule)
			r.Floors = append(r.Floors, f)
		}
	}
	for f := range sub.FuncsSeen {
		r.FuncsSeen[f] = true
	}
}

// withPkgHelpersOf: like withPkgHelpers, but tolerant of a nil function (an anchor that no longer resolves).
func (w *World) withPkgHelpersOf(fn *ssa.Function) []*ssa.Function {
	if fn == nil {
		return nil
	}
	return w.withPkgHelpers(fn)
}

// regFuncsOfArg: the Go functions a registration call can be handed through the given argument: the function or
// literal itself, the rows of a table walked by a loop, the elements of a slice (variadic) parameter at the call
// sites of the enclosing helper (registerAll(env, f, g, h)), or what a parameter of such a helper receives.
func (w *World) regFuncsOfArg(v ssa.Value, depth int) []*ssa.Function {
	if depth > 3 {
		return nil
	}
	if f := fnValueOf(v); f != nil {
		return []*ssa.Function{f}
	}
	var out []*ssa.Function
	for _, row := range tableRows(v) {
		if f := fnValueOf(row[0]); f != nil {
			out = append(out, f)
		}
	}
	if len(out) > 0 {
		return out
	}
	if ct, ok := v.(*ssa.ChangeType); ok {
		v = ct.X
	}
	if mi, ok := v.(*ssa.MakeInterface); ok {
		v = mi.X
	}
	switch x := v.(type) {
	case *ssa.Parameter:
		for _, a := range w.callSiteArgs(x) {
			out = append(out, w.regFuncsOfArg(a, depth+1)...)
		}
	case *ssa.UnOp:
		// the element of a range over a slice literal of this function: `for _, fn := range []any{keys, vals} {`
		if ia, ok := x.X.(*ssa.IndexAddr); ok {
			var arr *ssa.Alloc
			switch sl := ia.X.(type) {
			case *ssa.Slice:
				arr, _ = sl.X.(*ssa.Alloc)
			case *ssa.Alloc:
				arr = sl
			}
			if arr != nil {
				if _, isConstIdx := ia.Index.(*ssa.Const); !isConstIdx {
					for _, el := range arrayLiteralElems(arr) {
						out = append(out, w.regFuncsOfArg(el, depth+1)...)
					}
					if len(out) > 0 {
						return out
					}
				}
			}
		}
		// the element of a range over a slice parameter
		if ia, ok := x.X.(*ssa.IndexAddr); ok {
			if p, ok := ia.X.(*ssa.Parameter); ok {
				for _, a := range w.callSiteArgs(p) {
					for _, el := range sliceLiteralElemsOrdered(a) {
						out = append(out, w.regFuncsOfArg(el, depth+1)...)
					}
				}
			}
		}
	}
	return out
}

// arrayLiteralElems: the values stored into the elements of a local array literal, in index order.
func arrayLiteralElems(arr *ssa.Alloc) []ssa.Value {
	byIdx := map[int64]ssa.Value{}
	if arr.Referrers() == nil {
		return nil
	}
	for _, ref := range *arr.Referrers() {
		ia, ok := ref.(*ssa.IndexAddr)
		if !ok {
			continue
		}
		k, ok := ia.Index.(*ssa.Const)
		if !ok || k.Value == nil || k.Value.Kind() != constant.Int {
			continue
		}
		for _, u := range *ia.Referrers() {
			if st, ok := u.(*ssa.Store); ok && st.Addr == ssa.Value(ia) {
				byIdx[k.Int64()] = st.Val
			}
		}
	}
	var out []ssa.Value
	for i := int64(0); i < int64(len(byIdx)); i++ {
		if v, ok := byIdx[i]; ok {
			out = append(out, v)
		}
	}
	return out
}
