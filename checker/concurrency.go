package main

import (
	"fmt"
	"go/constant"
	"go/token"
	"go/types"
	"sort"
	"strings"

	"golang.org/x/tools/go/ssa"
)

func init() {
	register("C09", checkC09)
	register("C10", checkC10)
	register("C11", checkC11)
}

func (w *World) pkgFuncs(rel string) []*ssa.Function {
	var out []*ssa.Function
	for _, fn := range w.Funcs {
		if !isTestFunc(w, fn) && fnPkgPath(fn) == modPath+"/"+rel {
			out = append(out, fn)
		}
	}
	return out
}

func staticCallsTo(fn *ssa.Function, target *ssa.Function) []*ssa.Call {
	var out []*ssa.Call
	for _, b := range fn.Blocks {
		for _, in := range b.Instrs {
			if c, ok := in.(*ssa.Call); ok && c.Call.StaticCallee() == target {
				out = append(out, c)
			}
		}
	}
	return out
}

func extractOf(c *ssa.Call, idx int) *ssa.Extract {
	for _, ref := range *c.Referrers() {
		if ex, ok := ref.(*ssa.Extract); ok && ex.Index == idx {
			return ex
		}
	}
	return nil
}

// ---------------------------------------------------------------------------
// C09

func checkC09(w *World, r *Report) {
	e := newEngine(w)
	r.rule("C09.guard", "every read of Atom.Val / Atom.version holds the atom's mutex (read or write mode), every write holds it in write mode; methods that touch the fields without locking are only called with the lock of the same atom held")
	r.rule("C09.pair", "every Lock/RLock in lib/concurrent is released on every return (explicitly or by a deferred unlock), so a failing update function leaves the atom usable")
	r.rule("C09.callback", "no call that can reach the evaluator (types.Apply, EVAL, a function value) is made while an atom's mutex is held: the RWMutex is not reentrant, an update function that reads or prints the atom, or swaps another atom, would block forever")
	r.rule("C09.rmw", "swap! is a compare-and-set retry loop: value and version are read in one critical section, the update function is applied outside any lock, and the result is installed in a write-locked section only if the version still equals the one read; a failed comparison retries, and the retry loop polls the context")
	r.rule("C09.version", "every store to Atom.Val of a shared atom is accompanied, in the same function, by an increment of Atom.version (otherwise a concurrent swap! cannot notice the update and overwrites it)")
	guardRule(w, r, e, "C09.guard", w.guardRows()[0])
	derefSourceRule(w, r, e, "C09.deref-source")
	derefBuiltinRule(w, r, "C09.deref-builtin")
	monotoneAtomLint(w, r, "C09.lisp-monotone")
	identityObjectsRule(w, r, "C09.one-object", "Atom")
	atomConstructorRule(w, r, e, "C09.constructor")
	variadicNotCappedRule(w, r, "C09.swap-arity", "swap!")
	// "issued by any number of simultaneous evaluations or futures ... with no update lost": a future that issues
	// updates runs until its creator's context ends or it is cancelled itself, not until some other future returns
	r.include("C09.issuer-", "C10.", "an update issued by a running future is not lost because the future that started it has returned: a future's body is stopped only through its creator's context or future-cancel", checkC10, func(rule string) bool {
		return rule == "C10.ctx"
	})
	// "an update function that fails leaves the atom unchanged": its error reaches swap! through whatever
	// builtins the program composed the update from (update-in, apply ...)
	droppedErrorRule(w, r, "C09.update-error")
	// "an update function that reads atoms (or looks names up) cannot block the evaluation forever": the lookup's
	// ascent through the scopes takes one lock per scope, never the same lock twice
	ownLockRule(w, r, e, "C09.scope-lock")
	// futures that issue updates are started from let initialisers and read the let's frame while it is filled:
	// every write into a scope's table is made under that scope's lock (or before anybody else can see the scope)
	r.rule("C09.scope-guard", "every access to a scope's table of bindings is made while the mutex of that scope is held, or on a scope that no call has been handed yet: a future started from a let initialiser reads the frame the let is still filling (shared with C11.data)")
	guardRule(w, r, e, "C09.scope-guard", w.guardRows()[2])
	// "an update function that fails leaves the atom unchanged": a failing update function fails - throw answers
	// with an error on every path, whatever it is given
	throwTotalRule(w, r, e, "C09.throw-total")
	readersWriteNothingRule(w, r, e, "C09.readers-pure", "Atom", w.roles().atomMutex)
	releaseOnPanicRule(w, r, e, "C09.release-on-panic", w.pkgFuncs("lib/concurrent"))
	// "swap! ... installs and returns the result": swap!, reset! and deref reach programs through the binder's
	// adapter closures, which must hand back what the operation returned
	r.include("C09.builtin-", "C20.", "what swap!, reset! and deref return to the program is what the operation returned: a completed update is not reported as a failure", checkC20, func(rule string) bool {
		// (and the arguments an update function is given are the ones swap! was given: nil as nil)
		return rule == "C20.verbatim" || rule == "C20.results" || rule == "C20.nil-arg"
	})
	fns := w.pkgFuncs("lib/concurrent")
	n := pairRule(w, r, e, "C09.pair", fns)
	r.floor("C09.pair", "lock acquisitions and releases in lib/concurrent", n, 6)
	r.rule("C09.version-width", "the counter that tells swap! whether the atom changed since it was read is a 64-bit integer: it cannot come round to the value read while one update function runs (with a narrow counter 2^k intervening updates make a stale result install itself over them)")
	{
		ok64, tname := false, "?"
		if p := w.ByPath[modPath+"/lib/concurrent"]; p != nil && p.Types != nil {
			if obj := p.Types.Scope().Lookup("Atom"); obj != nil {
				if st, ok := obj.Type().Underlying().(*types.Struct); ok {
					for i := 0; i < st.NumFields(); i++ {
						if st.Field(i).Name() == w.roles().atomVersion {
							tname = st.Field(i).Type().String()
							if bt, ok := st.Field(i).Type().Underlying().(*types.Basic); ok && (bt.Kind() == types.Uint64 || bt.Kind() == types.Int64) {
								ok64 = true
							}
						}
					}
				}
			}
		}
		r.check(ok64, "C09.version-width", nil, "type of the atom's version counter", token.NoPos, tname, "the version counter is a "+tname+": it wraps around after few updates, and an update function that runs while exactly that many updates land finds 'its' version again and overwrites them all")
	}
	r.rule("C09.no-reentry", "no function of lib/concurrent acquires a mutex it already holds, or calls with the lock held a function that acquires the mutex of the same object (sync.RWMutex is not re-entrant even for readers: deref, swap! and reset! on that atom would block forever once a writer queues in between)")
	nre := reentryRule(w, r, e, "C09.no-reentry", fns)
	r.floor("C09.no-reentry", "calls and acquisitions made with a lock held in lib/concurrent", nre, 1)
	r.floor("C09.guard", "accesses to Atom.Val/version", r.count("C09.guard"), 8)

	// callback under lock
	nc := 0
	for _, fn := range w.Funcs {
		if isTestFunc(w, fn) || !libraryPkg(fnPkgPath(fn)) {
			continue
		}
		for _, lc := range e.callsUnderLock(fn, func(k string) bool { return strings.HasSuffix(k, "."+w.roles().atomMutex) }) {
			nc++
			bad, why := w.reachesEval(lc.in)
			construct := "call " + describeCallInstr(e, lc.in) + " under " + lc.held.String()
			if bad {
				r.bad("C09.callback", fn, construct, lc.in.Pos(), why+" while the atom's lock is held")
			} else {
				r.ok("C09.callback", fn, construct, lc.in.Pos(), "callee cannot reach the evaluator")
			}
		}
	}
	r.floor("C09.callback", "calls made under an atom lock", nc, 1)

	// version discipline
	atomAcc := w.fieldAccesses(guardedField{"lib/concurrent", "Atom", []string{"Val"}, "Mutex"})
	nv := 0
	for _, a := range atomAcc {
		if !a.write || e.freshPtr(a.object(), 0) {
			continue
		}
		nv++
		found := false
		for _, b := range a.fn.Blocks {
			for _, in := range b.Instrs {
				if primitiveConsume(in) {
					st := in.(*ssa.Store)
					fa := st.Addr.(*ssa.FieldAddr)
					if fieldName(fa.X.Type(), fa.Field) == e.w.roles().atomVersion && e.keyOf(fa.X).String() == e.keyOf(a.object()).String() {
						if b == a.in.Block() || b.Dominates(a.in.Block()) || a.in.Block().Dominates(b) {
							found = true
						}
					}
				}
			}
		}
		r.check(found, "C09.version", a.fn, "write Atom.Val", instrPos(a.in), "version incremented on the same path", "Atom.Val is stored without incrementing Atom.version")
	}
	r.floor("C09.version", "stores to Atom.Val of shared atoms", nv, 1)

	checkRMW(w, r, e)
	casExactRule(w, r, e, "C09.install")
	r.rule("C09.pure-update", "the optimistic swap! applies the update function to a value other threads can still see and may discard the result: no library function writes into the storage of a value it was given (container writes go to storage allocated in the same activation; shared with C02.write)")
	npu := ruleContainerWrites(w, r, e, "C09.pure-update", func(fn *ssa.Function) bool { return runtimePkg(fnPkgPath(fn)) }, false)
	r.floor("C09.pure-update", "container write sites in the library", npu, 40)
	r.rule("C09.lisp", "library code built on atoms in the embedded headers (gensym, memoize, load-file-once, protocols) updates them only through swap!, never by reset! of a value computed from a separate read, and does not re-read an atom after discarding swap!'s result")
	atomLint(w, r, "C09.lisp")
	updateFnLint(w, r, "C09.lisp-update")
	r.Assumptions = append(r.Assumptions, "linearizability and real-time order are not decided; only the lock discipline every linearizable implementation of this design needs")
}

func describeCallInstr(e *Engine, ci ssa.CallInstruction) string {
	c := ci.Common()
	if sc := c.StaticCallee(); sc != nil {
		return sc.Name()
	}
	if c.IsInvoke() {
		return describeVal(e, c.Value, 0) + "." + c.Method.Name()
	}
	return describeVal(e, c.Value, 0)
}

func checkRMW(w *World, r *Report, e *Engine) {
	applyFn := w.Fn("types", "Apply")
	var swap *ssa.Function
	attemptOf := func(fn *ssa.Function) *ssa.Function {
		for _, f := range w.withPkgHelpers(fn) {
			if len(staticCallsTo(f, applyFn)) > 0 {
				return f
			}
		}
		return nil
	}
	for _, fn := range w.registeredFuncs() {
		if fnPkgPath(fn) == modPath+"/lib/concurrent" && attemptOf(fn) != nil {
			// the one that (transitively) writes Atom.Val
			reach := w.reachableFrom([]*ssa.Function{fn})
			for _, a := range w.fieldAccesses(guardedField{"lib/concurrent", "Atom", []string{"Val"}, "Mutex"}) {
				if a.write && reach[a.fn] {
					swap = fn
				}
			}
		}
	}
	if swap == nil {
		r.undecided("C09.rmw", nil, "swap! implementation", token.NoPos, "no registered builtin in lib/concurrent applies a function and stores Atom.Val")
		return
	}
	// one attempt (read, apply, install) may be a function of its own that the retry loop calls
	outer := swap
	swap = attemptOf(outer)
	var callA *ssa.Call
	if swap != outer {
		cs := staticCallsTo(outer, swap)
		if len(cs) != 1 {
			r.bad("C09.rmw", outer, "call of the attempt function", outer.Pos(), "expected exactly one call of the function that performs one attempt")
			return
		}
		callA = cs[0]
	}
	applies := staticCallsTo(swap, applyFn)
	if len(applies) != 1 {
		r.bad("C09.rmw", swap, "apply of the update function", swap.Pos(), "expected exactly one application of the update function per attempt")
		return
	}
	apply := applies[0]
	// read step: a call, dominating the Apply, to an *Atom method whose every return yields (Val, version) loaded under a held lock
	var read, cas *ssa.Call
	for _, b := range swap.Blocks {
		for _, in := range b.Instrs {
			c, ok := in.(*ssa.Call)
			if !ok {
				continue
			}
			callee := c.Call.StaticCallee()
			if callee == nil || callee.Signature.Recv() == nil {
				continue
			}
			if _, name, ok := w.namedStruct(callee.Signature.Recv().Type()); !ok || name != "Atom" {
				continue
			}
			if isAtomRead(w, e, callee) && c.Block().Dominates(apply.Block()) {
				read = c
			}
			if isAtomCAS(w, e, callee) && apply.Block().Dominates(c.Block()) {
				cas = c
			}
		}
	}
	r.check(read != nil, "C09.rmw", swap, "read step", swap.Pos(), "value and version obtained from one locked section before the update function runs", "no call that reads Atom.Val and Atom.version in one critical section dominates the application of the update function")
	r.check(cas != nil, "C09.rmw", swap, "install step", swap.Pos(), "result installed by a version-checked write-locked method after the update function returned", "no version-checked, write-locked install step after the application of the update function")
	if read == nil || cas == nil {
		return
	}
	// data flow: version compared is the one read; value installed is the update function's result
	okVer := len(cas.Call.Args) >= 3 && cas.Call.Args[1] == ssa.Value(extractOf(read, 1))
	r.check(okVer, "C09.rmw", swap, "version passed to the install step", cas.Pos(), "the version read together with the value", "the version compared at install time is not the one read with the input value")
	okVal := len(cas.Call.Args) >= 3 && cas.Call.Args[2] == ssa.Value(extractOf(apply, 0))
	r.check(okVal, "C09.rmw", swap, "value passed to the install step", cas.Pos(), "the update function's result", "the installed value is not the result of the update function")
	// error of the update function leaves the atom unchanged: install dominated by err == nil
	errEx := extractOf(apply, 1)
	okErr := false
	if errEx != nil {
		k := e.keyOf(errEx).String()
		for _, f := range e.holding(cas.Block()).list() {
			if f.Kind == "nil" && f.K.String() == k {
				okErr = true
			}
		}
	}
	r.check(okErr, "C09.rmw", swap, "install only after a successful update function", cas.Pos(), "install step dominated by err == nil", "install step reachable when the update function failed")
	// no lock held across the Apply
	st := e.locks(swap).before[apply]
	r.check(len(st) == 0, "C09.rmw", swap, "update function applied outside any lock", apply.Pos(), "lockset empty", "locks held across the update function: "+st.String())
	// retry: read, apply and cas inside one loop; failed cas reaches the back-edge; loop polls ctx
	var loop *natLoop
	for _, l := range naturalLoops(outer) {
		l := l
		blocks := loopBlocks(l)
		if callA == nil && blocks[read.Block()] && blocks[apply.Block()] && blocks[cas.Block()] {
			loop = &l
		}
		if callA != nil && blocks[callA.Block()] {
			loop = &l
		}
	}
	if !r.check(loop != nil, "C09.rmw", swap, "retry loop", cas.Pos(), "read, apply and install are inside one loop", "a failed comparison does not retry: read/apply/install are not inside one loop") {
		return
	}
	blocks := loopBlocks(*loop)
	// the branch on the cas result: false edge stays in the loop, true edge leaves with the result
	okBranch := false
	if iff, ok := cas.Block().Instrs[len(cas.Block().Instrs)-1].(*ssa.If); ok && iff.Cond == ssa.Value(cas) && callA == nil {
		okBranch = blocks[cas.Block().Succs[1]] && !blocks[cas.Block().Succs[0]]
	}
	// attempt in a function of its own: it returns (result, installed, error) with installed = the install's
	// result and result = the update function's result; the loop branches on installed and returns result
	var branchBlock *ssa.BasicBlock
	resIdx, okIdx := -1, -1
	if callA != nil {
		for _, rb := range swap.Blocks {
			if len(rb.Instrs) == 0 {
				continue
			}
			ret, ok := rb.Instrs[len(rb.Instrs)-1].(*ssa.Return)
			if !ok || !(cas.Block() == rb || cas.Block().Dominates(rb)) {
				continue
			}
			for i, rv := range ret.Results {
				v := resolveRet(rv)
				if v == ssa.Value(cas) {
					okIdx = i
				}
				if v == ssa.Value(extractOf(apply, 0)) {
					resIdx = i
				}
			}
		}
		if okIdx >= 0 {
			if ex := extractOf(callA, okIdx); ex != nil {
				for _, ref := range *ex.Referrers() {
					if iff, ok := ref.(*ssa.If); ok && blocks[iff.Block()] {
						branchBlock = iff.Block()
						okBranch = blocks[branchBlock.Succs[1]] && !blocks[branchBlock.Succs[0]]
					}
				}
			}
		}
	}
	r.check(okBranch, "C09.rmw", swap, "branch on the install result", cas.Pos(), "success leaves the loop, failure retries", "the result of the install step does not decide between returning and retrying")
	// what swap! returns on success is the value it installed
	if okBranch {
		okRet := false
		var t *ssa.BasicBlock
		if callA == nil {
			t = cas.Block().Succs[0]
		}
		want := ssa.Value(extractOf(apply, 0))
		if callA != nil {
			t = branchBlock.Succs[0]
			want = nil
			if resIdx >= 0 {
				if ex := extractOf(callA, resIdx); ex != nil {
					want = ex
				}
			}
		}
		if ret, ok := t.Instrs[len(t.Instrs)-1].(*ssa.Return); ok && len(ret.Results) == 2 && want != nil {
			okRet = resolveRet(ret.Results[0]) == want && isNilConst(resolveRet(ret.Results[1]))
		}
		r.check(okRet, "C09.rmw", swap, "value returned by swap!", cas.Pos(), "the installed result of the update function", "swap! does not return the value it installed (a re-read can observe a later update)")
	}
	// context poll inside the loop
	polled := false
	for b := range blocks {
		for _, in := range b.Instrs {
			if c, ok := in.(ssa.CallInstruction); ok && c.Common().IsInvoke() && (c.Common().Method.Name() == "Err" || c.Common().Method.Name() == "Done") {
				if isContext(c.Common().Value.Type()) {
					polled = true
				}
			}
		}
	}
	r.check(polled, "C09.rmw", outer, "retry loop polls the context", outer.Pos(), "ctx.Err()/ctx.Done() consulted in the loop", "retry loop never consults the context (C07)")
	// the versioned install is the only thing swap! writes into the atom
	for _, f := range w.withPkgHelpers(outer) {
		if f == cas.Call.StaticCallee() || f == read.Call.StaticCallee() {
			continue
		}
		for _, b := range f.Blocks {
			for _, in := range b.Instrs {
				ci, ok := in.(ssa.CallInstruction)
				if !ok || ci == ssa.CallInstruction(cas) || (callA != nil && ci == ssa.CallInstruction(callA)) {
					continue
				}
				sc := ci.Common().StaticCallee()
				if sc == nil || sc == cas.Call.StaticCallee() || fnPkgPath(sc) != fnPkgPath(swap) {
					continue
				}
				if writesAtomVal(w, sc, map[*ssa.Function]bool{}) {
					r.bad("C09.rmw", f, "write to the atom besides the versioned install: "+sc.Name(), in.Pos(), "swap! also writes the atom through "+sc.Name()+", without comparing versions: an update another thread completed meanwhile is overwritten (for instance by writing the old value back after a failed update)")
				}
			}
		}
	}
	// a retried attempt is independent of the failed ones: nothing is carried around the loop, nothing allocated
	// before the loop is written inside it, and the argument list handed to the update function is built per attempt
	var carried []string
	for _, in := range loop.header.Instrs {
		phi, ok := in.(*ssa.Phi)
		if !ok {
			break
		}
		carried = append(carried, nz(phi.Comment, phi.Name()))
	}
	r.check(len(carried) == 0, "C09.rmw", swap, "state carried from one attempt to the next", loop.header.Instrs[0].Pos(), "none", "values carried around the retry loop ("+strings.Join(carried, ", ")+"): a retried attempt does not compute f(current value, same arguments)")
	for b := range blocks {
		for _, in := range b.Instrs {
			var root ssa.Value
			what := ""
			switch x := in.(type) {
			case *ssa.Store:
				switch ad := x.Addr.(type) {
				case *ssa.IndexAddr:
					root, what = storageRoot(ad.X), "element store"
					if root == nil {
						root = ad.X
					}
				case *ssa.Alloc:
					root, what = ad, "assignment to a variable"
				case *ssa.FreeVar:
					root, what = ad, "assignment to a captured variable"
				}
			case *ssa.MapUpdate:
				root, what = x.Map, "map update"
			}
			if root == nil {
				continue
			}
			ri, isInstr := root.(ssa.Instruction)
			outside := !isInstr || !blocks[ri.Block()]
			if _, isParam := root.(*ssa.Parameter); isParam {
				outside = true
			}
			if al, ok := root.(*ssa.Alloc); ok && outside && (al.Comment == "varargs" || al.Comment == "complit" || al.Comment == "slicelit") {
				outside = false // temporaries are (re)allocated where they are used
			}
			if outside {
				r.bad("C09.rmw", swap, what+" inside the retry loop", in.Pos(), "storage that outlives an attempt ("+describeVal(e, root, 0)+") is written inside the retry loop: a retried attempt sees what the failed one left behind")
			}
		}
	}
	if len(apply.Call.Args) >= 3 {
		root := storageRoot(apply.Call.Args[2])
		if ap, ok := apply.Call.Args[2].(*ssa.Call); ok {
			if bi, isB := ap.Call.Value.(*ssa.Builtin); isB && bi.Name() == "append" {
				root = storageRoot(ap.Call.Args[0])
				if root == nil {
					if c, isC := ap.Call.Args[0].(*ssa.Const); isC && c.Value == nil {
						root = ap // append(nil, …) allocates
					}
				}
			}
		}
		if hc, ok := apply.Call.Args[2].(*ssa.Call); ok && root == nil && allocatesResult(hc.Call.StaticCallee()) {
			root = hc // a helper that hands back a list it allocated itself, called in the attempt
		}
		ri, isInstr := root.(ssa.Instruction)
		if callA != nil && isInstr && ri.Parent() == swap {
			blocks[ri.Block()] = true // allocated by the attempt function: anew on every call
		}
		r.check(root != nil && isInstr && blocks[ri.Block()], "C09.rmw", swap, "argument list of the update function", apply.Pos(), "built anew in every attempt", "the argument list handed to the update function is not allocated inside the attempt: it carries contents from one attempt to the next (and a function keeping its rest arguments sees them change)")
	}
}

func isContext(t types.Type) bool {
	n, ok := t.(*types.Named)
	return ok && n.Obj().Pkg() != nil && n.Obj().Pkg().Path() == "context" && n.Obj().Name() == "Context"
}

// isAtomRead: every return yields (load recv.Val, load recv.version) with the receiver's mutex held at both loads.
func isAtomRead(w *World, e *Engine, fn *ssa.Function) bool {
	if fn.Blocks == nil || fn.Signature.Results().Len() != 2 || len(fn.Params) != 1 {
		return false
	}
	li := e.locks(fn)
	nret := 0
	for _, b := range fn.Blocks {
		if len(b.Instrs) == 0 || b == fn.Recover {
			continue
		}
		ret, ok := b.Instrs[len(b.Instrs)-1].(*ssa.Return)
		if !ok {
			continue
		}
		nret++
		for i, want := range []string{"Val", e.w.roles().atomVersion} {
			ld, ok := resolveRet(ret.Results[i]).(*ssa.UnOp)
			if !ok {
				return false
			}
			fa, ok := ld.X.(*ssa.FieldAddr)
			if !ok || fa.X != ssa.Value(fn.Params[0]) || fieldName(fa.X.Type(), fa.Field) != want {
				return false
			}
			key := e.keyOf(fa.X).String() + "." + e.w.roles().atomMutex
			if li.before[ld][key] == 0 {
				return false
			}
		}
	}
	return nret > 0
}

// isAtomCAS: method (recv, version, val) bool that, under the write lock, stores val (directly or
// through a lock-required setter) only on the path where the receiver's version equals the parameter.
func isAtomCAS(w *World, e *Engine, fn *ssa.Function) bool {
	if fn.Blocks == nil || len(fn.Params) != 3 || fn.Signature.Results().Len() != 1 {
		return false
	}
	if b, ok := fn.Signature.Results().At(0).Type().Underlying().(*types.Basic); !ok || b.Kind() != types.Bool {
		return false
	}
	li := e.locks(fn)
	key := e.keyOf(fn.Params[0]).String() + "." + e.w.roles().atomMutex
	installs := 0
	for _, b := range fn.Blocks {
		for _, in := range b.Instrs {
			isInstall := false
			switch x := in.(type) {
			case *ssa.Store:
				if fa, ok := x.Addr.(*ssa.FieldAddr); ok && fa.X == ssa.Value(fn.Params[0]) && fieldName(fa.X.Type(), fa.Field) == "Val" && x.Val == ssa.Value(fn.Params[2]) {
					isInstall = true
				}
			case *ssa.Call:
				if callee := x.Call.StaticCallee(); callee != nil && len(x.Call.Args) == 2 && x.Call.Args[0] == ssa.Value(fn.Params[0]) && x.Call.Args[1] == ssa.Value(fn.Params[2]) && storesRecvField(callee, "Val") {
					isInstall = true
				}
			}
			if !isInstall {
				continue
			}
			installs++
			if li.before[in][key] != 2 {
				return false
			}
			// dominated by version equality
			eq := 0
			for _, f := range e.holding(b).list() {
				if f.Kind != "le" || f.C != 0 {
					continue
				}
				a, bb := f.A.K.String(), f.B.K.String()
				pv := e.keyOf(fn.Params[1]).String()
				if (strings.HasSuffix(a, "->"+e.w.roles().atomVersion) && bb == pv) || (strings.HasSuffix(bb, "->"+e.w.roles().atomVersion) && a == pv) {
					eq++
				}
			}
			if eq < 2 {
				return false
			}
		}
	}
	if installs == 0 {
		return false
	}
	// result true only after the install, false otherwise
	return true
}

func storesRecvField(fn *ssa.Function, field string) bool {
	if fn.Blocks == nil || len(fn.Params) == 0 {
		return false
	}
	for _, b := range fn.Blocks {
		for _, in := range b.Instrs {
			if st, ok := in.(*ssa.Store); ok {
				if fa, ok := st.Addr.(*ssa.FieldAddr); ok && fa.X == ssa.Value(fn.Params[0]) && fieldName(fa.X.Type(), fa.Field) == field && len(fn.Params) > 1 && st.Val == ssa.Value(fn.Params[1]) {
					return true
				}
			}
		}
	}
	return false
}

// ---------------------------------------------------------------------------
// C10

func checkC10(w *World, r *Report) {
	e := newEngine(w)
	r.rule("C10.shared", "every field of Future written after the body goroutine is started (Done, Cancelled) is accessed only with Future.mu held, in every function of the module")
	r.rule("C10.once", "the constructor starts exactly one goroutine, outside any loop, whose body applies the future's function exactly once, outside any loop")
	r.rule("C10.done-before-deliver", "in the body goroutine the store that makes future-done? true dominates every send of the outcome, so a deref that has returned implies done")
	r.rule("C10.redeposit", "in Deref every receive from an outcome channel is followed by a send of the same value to the same channel, and outcome channels have capacity >= 1 so the re-deposit cannot block")
	r.rule("C10.cancel-atomic", "in Cancel the test of Done, the stores to Cancelled/Done and the read of the returned value are one critical section; the cancel function is called only on the not-yet-done path")
	r.rule("C10.ctx", "the body runs under a context.WithCancel child of the creator's context and Cancel calls that cancel function; Deref waits on its caller's context")
	r.rule("C10.pair", "every lock acquired in the future code is released on every return")
	guardRule(w, r, e, "C10.shared", w.guardRows()[1])
	// ... and whatever else of a future is written once it is shared (a field assigned outside the literal the
	// constructor builds it with) is guarded by the same mutex in every function that touches it
	{
		known := map[string]bool{}
		for _, f := range w.guardRows()[1].fields {
			known[f] = true
		}
		late := map[string]bool{}
		for _, fn := range w.Funcs {
			if isTestFunc(w, fn) || !inModule(fn) {
				continue
			}
			for _, b := range fn.Blocks {
				for _, in := range b.Instrs {
					st, ok := in.(*ssa.Store)
					if !ok {
						continue
					}
					fa, ok := st.Addr.(*ssa.FieldAddr)
					if !ok {
						continue
					}
					if pr, name, ok := w.namedStruct(fa.X.Type()); !ok || pr != "lib/concurrent" || name != "Future" {
						continue
					}
					if al, isAl := fa.X.(*ssa.Alloc); isAl && al.Comment == "complit" && al.Parent() == fn {
						continue // the literal the constructor fills in before anybody else sees the future
					}
					if e.freshPtr(fa.X, 0) || freshAtEveryCall(w, e, fa.X) {
						continue // ... or a function of the package fills in for it, on a future nobody else has seen yet
					}
					if fname := fieldName(fa.X.Type(), fa.Field); !known[fname] && fname != w.roles().futureMu {
						late[fname] = true
					}
				}
			}
		}
		for _, fname := range keysOf(late) {
			guardRule(w, r, e, "C10.shared", guardedField{"lib/concurrent", "Future", []string{fname}, w.roles().futureMu})
		}
	}
	// a future's body starts when the future is made and waits for nothing the futures share: a pool, a slot
	// counter or a mailbox at package level makes one future's start depend on the others' ends (bodies that wait
	// for futures not yet started are then never evaluated)
	sharedStateRule(w, r, "C10.no-shared-queue", "lib/concurrent")
	r.floor("C10.shared", "accesses to Future.Done/Cancelled", r.count("C10.shared"), 6)
	pairRule(w, r, e, "C10.pair", w.pkgFuncs("lib/concurrent"))

	newFuture := w.Fn("lib/concurrent", "NewFuture")
	cancel := w.Fn("lib/concurrent", "(*Future).Cancel")
	deref := w.Fn("lib/concurrent", "(*Future).Deref")
	applyFn := w.Fn("types", "Apply")
	if newFuture == nil || cancel == nil || deref == nil {
		r.undecided("C10.once", nil, "anchors", token.NoPos, "NewFuture / (*Future).Cancel / (*Future).Deref no longer resolve")
		return
	}
	// once
	var gos []*ssa.Go
	loops := naturalLoops(newFuture)
	inLoop := func(fn *ssa.Function, b *ssa.BasicBlock) bool {
		for _, l := range naturalLoops(fn) {
			if loopBlocks(l)[b] {
				return true
			}
		}
		return false
	}
	_ = loops
	for _, b := range newFuture.Blocks {
		for _, in := range b.Instrs {
			if g, ok := in.(*ssa.Go); ok {
				gos = append(gos, g)
			}
		}
	}
	if !r.check(len(gos) == 1 && !inLoop(newFuture, gos[0].Block()), "C10.once", newFuture, "go statement", newFuture.Pos(), "exactly one goroutine started, outside any loop", "the constructor must start exactly one goroutine outside any loop") {
		return
	}
	var body *ssa.Function
	if mc, ok := gos[0].Call.Value.(*ssa.MakeClosure); ok {
		body = mc.Fn.(*ssa.Function)
	} else if sc := gos[0].Call.StaticCallee(); sc != nil {
		body = sc
	}
	if body == nil {
		r.undecided("C10.once", newFuture, "goroutine body", gos[0].Pos(), "cannot resolve the goroutine's function")
		return
	}
	// "on another thread": the body function is started by the go statement and called from nowhere else (a
	// body run by the creator itself blocks future-call until it is finished, and is done before anybody can
	// cancel it)
	for _, fn := range w.pkgFuncs("lib/concurrent") {
		for _, b := range fn.Blocks {
			for _, in := range b.Instrs {
				ci, ok := in.(ssa.CallInstruction)
				if !ok {
					continue
				}
				if _, isGo := in.(*ssa.Go); isGo {
					continue
				}
				if closureCallee(e, ci.Common()) == body {
					r.bad("C10.once", fn, "plain call of the body function", in.Pos(), "the function the goroutine runs is also called directly: on that path the body is evaluated on the creator's thread (future-call does not return until it is done, and the future can never be seen running)")
				}
			}
		}
	}
	applies := staticCallsTo(body, applyFn)
	okOnce := len(applies) == 1 && !inLoop(body, applies[0].Block())
	r.check(okOnce, "C10.once", body, "application of the future's function", body.Pos(), "applied exactly once, outside any loop", "the body must apply the function exactly once")
	// nobody else applies Future.Fn
	for _, fn := range w.pkgFuncs("lib/concurrent") {
		if fn == body || fn == newFuture {
			continue
		}
		for _, c := range staticCallsTo(fn, applyFn) {
			if v, ok := c.Call.Args[1].(*ssa.MakeInterface); ok {
				if ld, ok := v.X.(*ssa.UnOp); ok {
					if fa, ok := ld.X.(*ssa.FieldAddr); ok {
						if _, name, _ := w.namedStruct(fa.X.Type()); name == "Future" {
							r.bad("C10.once", fn, "second application of Future.Fn", c.Pos(), "the future's function is applied outside the body goroutine")
						}
					}
				}
			}
		}
	}
	if !okOnce {
		return
	}
	// ctx: Apply receives the result of context.WithCancel(param ctx)
	ctxArg := applies[0].Call.Args[0]
	derived := false
	var cancelFnVal ssa.Value
	if p, ok := ctxArg.(*ssa.Parameter); ok && p.Parent() == body {
		for i, q := range body.Params {
			if q == p && i < len(gos[0].Call.Args) {
				ctxArg = gos[0].Call.Args[i]
			}
		}
	}
	if withs, ok := ctxDerivation(e, ctxArg, map[ssa.Value]bool{}); ok && len(withs) > 0 {
		derived = true
		cancelFnVal = extractOf(withs[len(withs)-1], 1)
	}
	if false {
		if fv, ok := ctxArg.(*ssa.FreeVar); ok {
			// bound in the constructor
			for i, f := range body.FreeVars {
				if f == fv {
					if mc, ok := gos[0].Call.Value.(*ssa.MakeClosure); ok {
						ctxArg = mc.Bindings[i]
					}
				}
			}
		}
		if ld, ok := ctxArg.(*ssa.UnOp); ok {
			if al, ok := ld.X.(*ssa.Alloc); ok {
				for _, st := range e.storesTo(al) {
					if ex, ok := st.Val.(*ssa.Extract); ok {
						ctxArg = ex
					}
				}
			}
		}
		if ex, ok := ctxArg.(*ssa.Extract); ok && ex.Index == 0 {
			if c, ok := ex.Tuple.(*ssa.Call); ok {
				if sc := c.Call.StaticCallee(); sc != nil && sc.Pkg != nil && sc.Pkg.Pkg.Path() == "context" && strings.HasPrefix(sc.Name(), "With") && sc.Name() != "WithoutCancel" {
					if c.Call.Args[0] == ssa.Value(newFuture.Params[0]) {
						derived = true
						cancelFnVal = extractOf(c, 1)
					}
				}
			}
		}
	}
	r.check(derived, "C10.ctx", newFuture, "context of the body", applies[0].Pos(), "context.With*(creator's ctx)", "the body does not run under a context derived from its creator's context")
	// CancelFunc field holds that cancel function
	storedCancel := false
	for _, sf := range w.pkgFuncs("lib/concurrent") {
		for _, b := range sf.Blocks {
			for _, in := range b.Instrs {
				if st, ok := in.(*ssa.Store); ok {
					if fa, ok := st.Addr.(*ssa.FieldAddr); ok && fieldName(fa.X.Type(), fa.Field) == "CancelFunc" && cancelFnVal != nil && w.arrivesAs(st.Val, cancelFnVal, 0) {
						storedCancel = true
					}
				}
			}
		}
	}
	r.check(storedCancel, "C10.ctx", newFuture, "Future.CancelFunc", newFuture.Pos(), "holds the cancel function of the body's context", "CancelFunc is not the cancel function of the body's context")
	// Deref waits on its own ctx parameter
	derefCtx := false
	for _, b := range deref.Blocks {
		for _, in := range b.Instrs {
			if sel, ok := in.(*ssa.Select); ok {
				for _, st := range sel.States {
					if c, ok := st.Chan.(*ssa.Call); ok && c.Call.IsInvoke() && c.Call.Method.Name() == "Done" && len(deref.Params) > 1 && c.Call.Value == ssa.Value(deref.Params[1]) {
						derefCtx = true
					}
				}
			}
		}
	}
	r.check(derefCtx, "C10.ctx", deref, "select on the caller's context", deref.Pos(), "<-ctx.Done() of Deref's own context parameter", "Deref does not wait on its caller's context")

	// done-before-deliver
	// events that make future-done? true: a store Done = true, or a call of a function of the package that
	// performs such a store on every path to its return
	var doneStores []ssa.Instruction
	var sends []ssa.Instruction // sends of the outcome, and calls of package functions that send it
	isDoneStore := func(in ssa.Instruction) bool {
		x, ok := in.(*ssa.Store)
		if !ok {
			return false
		}
		if fa, ok := x.Addr.(*ssa.FieldAddr); ok && fieldName(fa.X.Type(), fa.Field) == "Done" {
			if c, ok := x.Val.(*ssa.Const); ok && c.Value != nil && c.Value.Kind() == constant.Bool && constant.BoolVal(c.Value) {
				return true
			}
		}
		return false
	}
	setsDone := func(fn *ssa.Function) bool {
		if fn == nil || len(fn.Blocks) == 0 || fn.Pkg != body.Pkg {
			return false
		}
		for _, b := range fn.Blocks {
			for _, in := range b.Instrs {
				if !isDoneStore(in) {
					continue
				}
				all := true
				for _, rb := range fn.Blocks {
					if len(rb.Instrs) > 0 && rb != fn.Recover {
						if _, isRet := rb.Instrs[len(rb.Instrs)-1].(*ssa.Return); isRet && !b.Dominates(rb) {
							all = false
						}
					}
				}
				if all {
					return true
				}
			}
		}
		return false
	}
	// the delivery may be made by a function of the package the body calls: such a call is a delivery event; it
	// delivers for certain when no path through the callee avoids every send
	bodyHelpers := map[*ssa.Function]bool{}
	for _, h := range w.withPkgHelpers(body) {
		if h != body {
			bodyHelpers[h] = true
		}
	}
	var sendsOf func(fn *ssa.Function, depth int) (n int, always bool)
	sendsOf = func(fn *ssa.Function, depth int) (int, bool) {
		if fn == nil || depth > 3 || len(fn.Blocks) == 0 {
			return 0, false
		}
		n := 0
		sendBlocks := map[*ssa.BasicBlock]bool{}
		for _, b := range fn.Blocks {
			for _, in := range b.Instrs {
				switch x := in.(type) {
				case *ssa.Send:
					if _, ok := outcomeChanField(x.Chan); ok {
						n++
						sendBlocks[b] = true
					}
				case *ssa.Call:
					if h := x.Call.StaticCallee(); h != nil && bodyHelpers[h] && h != fn {
						k, alw := sendsOf(h, depth+1)
						n += k
						if alw {
							sendBlocks[b] = true
						}
					}
				}
			}
		}
		always := n > 0
		for _, b := range fn.Blocks {
			if len(b.Instrs) == 0 || b == fn.Recover {
				continue
			}
			if _, isRet := b.Instrs[len(b.Instrs)-1].(*ssa.Return); isRet && !sendBlocks[fn.Blocks[0]] && !sendBlocks[b] && reachesAvoiding(fn.Blocks[0], b, sendBlocks) {
				always = false
			}
		}
		return n, always
	}
	nsends := 0
	alwaysSends := map[ssa.Instruction]bool{}
	for _, b := range body.Blocks {
		for _, in := range b.Instrs {
			switch x := in.(type) {
			case *ssa.Store:
				if isDoneStore(x) {
					doneStores = append(doneStores, x)
				}
			case *ssa.Call:
				if setsDone(x.Call.StaticCallee()) {
					doneStores = append(doneStores, x)
				} else if h := x.Call.StaticCallee(); h != nil && bodyHelpers[h] {
					if k, alw := sendsOf(h, 0); k > 0 {
						sends = append(sends, x)
						nsends += k
						alwaysSends[x] = alw
					}
				}
			case *ssa.Send:
				sends = append(sends, x)
				nsends++
				alwaysSends[x] = true
			}
		}
	}
	r.floor("C10.done-before-deliver", "sends of the outcome in the body goroutine", nsends, 2)
	for _, s := range sends {
		ok := false
		for _, d := range doneStores {
			if d.Block() == s.Block() {
				for _, in := range s.Block().Instrs {
					if in == d {
						ok = true
						break
					}
					if in == ssa.Instruction(s) {
						break
					}
				}
			} else if d.Block().Dominates(s.Block()) {
				ok = true
			}
		}
		what := ""
		if sd, isSend := s.(*ssa.Send); isSend {
			what = "send " + describeVal(e, sd.Chan, 0)
		} else {
			what = "delivery through " + describeCallInstr(e, s.(ssa.CallInstruction))
		}
		r.check(ok, "C10.done-before-deliver", body, what, s.Pos(), "Done = true stored on every path before the outcome is sent", "the outcome is delivered before (or without) Done being set: future-done? can be false after a deref returned")
	}

	// deliver: every way out of the body after the function was applied has sent the outcome
	r.rule("C10.deliver", "every return of the body goroutine after the function was applied is preceded, on every path, by a send of the outcome (a future that completed always delivers, also after a cancel)")
	nd := 0
	for _, b := range body.Blocks {
		if len(b.Instrs) == 0 || b == body.Recover {
			continue
		}
		ret, ok := b.Instrs[len(b.Instrs)-1].(*ssa.Return)
		if !ok || !applies[0].Block().Dominates(b) {
			continue
		}
		nd++
		// no path from the application to this exit avoids every send
		sendBlocks := map[*ssa.BasicBlock]bool{}
		for _, s := range sends {
			if alwaysSends[s] {
				sendBlocks[s.Block()] = true
			}
		}
		sent := sendBlocks[applies[0].Block()] || sendBlocks[b] || !reachesAvoiding(applies[0].Block(), b, sendBlocks)
		r.check(sent, "C10.deliver", body, "exit of the body goroutine", ret.Pos(), "outcome sent on every path to this exit", "the body can finish without delivering its outcome: every deref then blocks until its own context ends")
	}
	r.floor("C10.deliver", "exits of the body goroutine", nd, 1)
	// what is delivered is what the body came to: the value or the error its application returned, never an
	// outcome made up by the goroutine (an error of its own for a cancelled future, say: the value the body threw,
	// or the error its builtin returned, never reaches the catch around the deref)
	r.rule("C10.outcome-own", "every send on an outcome channel in the body goroutine (and the functions of the package it delivers through) sends a result of the application of the future's function - its value or its error - as it is")
	{
		var fromApply func(v ssa.Value, depth int) bool
		fromApply = func(v ssa.Value, depth int) bool {
			if depth > 5 {
				return false
			}
			switch x := v.(type) {
			case *ssa.MakeInterface:
				return fromApply(x.X, depth+1)
			case *ssa.ChangeInterface:
				return fromApply(x.X, depth+1)
			case *ssa.Extract:
				return x.Tuple == ssa.Value(applies[0])
			case *ssa.Phi:
				for _, op := range x.Edges {
					if !fromApply(op, depth+1) {
						return false
					}
				}
				return len(x.Edges) > 0
			case *ssa.UnOp:
				// a variable of the body (captured by a literal): every value stored into it
				if cell := cellOf(x.X); cell != nil && x.Op == token.MUL {
					sts := e.storesTo(cell)
					for _, st := range sts {
						if !fromApply(st.Val, depth+1) {
							return false
						}
					}
					return len(sts) > 0
				}
			case *ssa.Parameter:
				fn := x.Parent()
				if fn == nil || !(bodyHelpers[fn] || fn == body) {
					return false
				}
				idx := -1
				for i, p := range fn.Params {
					if p == x {
						idx = i
					}
				}
				sites := e.callSites(fn)
				if idx < 0 || len(sites) == 0 {
					return false
				}
				for _, site := range sites {
					if idx >= len(site.Common().Args) || !fromApply(site.Common().Args[idx], depth+1) {
						return false
					}
				}
				return true
			}
			return false
		}
		no := 0
		fns := []*ssa.Function{body}
		for h := range bodyHelpers {
			fns = append(fns, h)
		}
		sort.Slice(fns, func(i, j int) bool { return fns[i].String() < fns[j].String() })
		for _, fn := range fns {
			for _, b := range fn.Blocks {
				for _, in := range b.Instrs {
					sd, ok := in.(*ssa.Send)
					if !ok {
						continue
					}
					if _, isOutcome := outcomeChanField(sd.Chan); !isOutcome {
						continue
					}
					no++
					r.check(fromApply(sd.X, 0), "C10.outcome-own", fn, "outcome sent by the body goroutine", sd.Pos(), "a result of applying the future's function", "the goroutine delivers something other than what the body came to ("+describeVal(e, sd.X, 0)+"): the value the body threw or the error it returned is replaced, and every deref gets the replacement")
				}
			}
		}
		r.floor("C10.outcome-own", "outcomes sent by the body goroutine", no, 2)
	}
	singleOutcomeRule(w, r, e, "C10.single-outcome")
	doneFlagRule(w, r, e, "C10.done-flag")
	cancelFlagRule(w, r, "C10.cancel-flag")
	statusBuiltinRule(w, r, "C10.status-builtins")
	// deref, future-done?, future-cancelled? and future-cancel are called through the binder's adapters from any
	// number of threads at once: an adapter that writes state it captured at registration hands one caller the
	// arguments (the future) of another, and races
	capturedStateRule(w, r, e, "C10.adapter-state")
	identityObjectsRule(w, r, "C10.one-object", "Future")
	derefContextRule(w, r, "C10.deref-context")
	r.rule("C10.body-context", "every evaluation the library starts runs under the context its function was given or a child of it - never under a fresh one, never under one captured from an enclosing activation in its place: the body of a future runs under the very context that future-cancel cancels, and a deref reached from any form (a finally body included) waits under the context of the evaluation that contains it (shared with C07.derive)")
	if m10 := newEvalModel(w, e); m10.ok {
		nbc := ctxDeriveRule(w, r, e, m10, "C10.body-context", nil)
		r.floor("C10.body-context", "contexts handed to evaluating calls in lib/concurrent", nbc, 2)
	} else {
		r.undecided("C10.body-context", nil, "evaluator model", token.NoPos, m10.why)
	}
	futureWritersRule(w, r, e, "C10.readers")
	cancelAnswerRule(w, r, e, "C10.cancel-answer")
	// redeposit: wherever a function of the package takes an outcome out of a future's channels (Deref, but also a
	// printer or a status function that peeks), it puts it back
	nrecv := 0
	for _, dfn := range w.pkgFuncs("lib/concurrent") {
		if isTestFunc(w, dfn) {
			continue
		}
		for _, b := range dfn.Blocks {
			for _, in := range b.Instrs {
				sel, ok := in.(*ssa.Select)
				if !ok {
					continue
				}
				for si, st := range sel.States {
					if st.Dir != types.RecvOnly {
						continue
					}
					if c, ok := st.Chan.(*ssa.Call); ok && c.Call.IsInvoke() && c.Call.Method.Name() == "Done" {
						continue
					}
					if _, isOutcome := outcomeChanField(st.Chan); !isOutcome && dfn != deref {
						continue
					}
					nrecv++
					// the received value: extract #(2+k) where k counts receive states before si
					k := 0
					for j := 0; j < si; j++ {
						if sel.States[j].Dir == types.RecvOnly {
							k++
						}
					}
					var recvVal ssa.Value
					for _, ref := range *sel.Referrers() {
						if ex, ok := ref.(*ssa.Extract); ok && ex.Index == 2+k {
							recvVal = ex
						}
					}
					chanKey := e.keyOf(st.Chan).String()
					found := false
					for _, bb := range dfn.Blocks {
						for _, in2 := range bb.Instrs {
							if sd, ok := in2.(*ssa.Send); ok && e.keyOf(sd.Chan).String() == chanKey && recvVal != nil && sd.X == recvVal {
								found = true
							}
						}
					}
					// ... or handed to a function of the package that sends its parameter back on that channel
					if !found && recvVal != nil {
						for _, bb := range dfn.Blocks {
							for _, in2 := range bb.Instrs {
								c2, ok := in2.(*ssa.Call)
								if !ok {
									continue
								}
								g := c2.Call.StaticCallee()
								if g == nil || g.Pkg != dfn.Pkg || len(g.Blocks) == 0 {
									continue
								}
								for ai, a := range c2.Call.Args {
									if a != recvVal || ai >= len(g.Params) {
										continue
									}
									for _, gb := range g.Blocks {
										for _, gin := range gb.Instrs {
											sd, ok := gin.(*ssa.Send)
											if !ok || sd.X != ssa.Value(g.Params[ai]) {
												continue
											}
											k := e.keyOf(sd.Chan)
											for pj, gp := range g.Params {
												if k.Root == ssa.Value(gp) && pj < len(c2.Call.Args) {
													nk := e.keyOf(c2.Call.Args[pj])
													nk.Path += k.Path
													if nk.String() == chanKey {
														found = true
													}
												}
											}
										}
									}
								}
							}
						}
					}
					r.check(found, "C10.redeposit", dfn, "receive from "+describeVal(e, st.Chan, 0), sel.Pos(), "the received outcome is sent back to the same channel", "an outcome taken from the channel is not put back: later derefs block forever")
				}
			}
		}
	}
	r.floor("C10.redeposit", "receives from outcome channels in Deref", nrecv, 2)
	// every answer of Deref follows a receive: an outcome, or the end of the caller's context
	r.rule("C10.deref-waits", "Deref returns only on a path on which a select delivered something (an outcome from one of the future's channels, or the end of the caller's context): it never answers from a non-blocking look at the channels, which are momentarily empty while another reader holds the outcome between its receive and its re-deposit, or between the done flag and the delivery")
	{
		nw := 0
		for _, b := range deref.Blocks {
			if len(b.Instrs) == 0 || b == deref.Recover {
				continue
			}
			ret, ok := b.Instrs[len(b.Instrs)-1].(*ssa.Return)
			if !ok {
				continue
			}
			nw++
			decided := false
			for _, d := range deref.Blocks {
				iff := blockIf(d)
				if iff == nil {
					continue
				}
				bo, ok := iff.Cond.(*ssa.BinOp)
				if !ok || bo.Op != token.EQL {
					continue
				}
				ex, ok := bo.X.(*ssa.Extract)
				if !ok || ex.Index != 0 {
					continue
				}
				if _, isSel := ex.Tuple.(*ssa.Select); !isSel {
					continue
				}
				if k, ok := bo.Y.(*ssa.Const); ok && k.Value != nil && k.Int64() >= 0 && edgeDominates(d, 0, b) {
					decided = true
				}
			}
			// a plain receive also waits
			for _, d := range deref.Blocks {
				for _, in := range d.Instrs {
					if u, ok := in.(*ssa.UnOp); ok && u.Op == token.ARROW && (d == b || d.Dominates(b)) {
						decided = true
					}
				}
			}
			r.check(decided, "C10.deref-waits", deref, "answer of Deref", ret.Pos(), "given after a select case fired", "Deref answers without having received anything (the default branch of a non-blocking select, or no wait at all): a reader that arrives while another holds the outcome, or before the delivery, gets a made-up answer instead of the future's outcome")
		}
		r.floor("C10.deref-waits", "returns of Deref", nw, 3)
	}
	for _, b := range newFuture.Blocks {
		for _, in := range b.Instrs {
			if mc, ok := in.(*ssa.MakeChan); ok {
				c, isC := mc.Size.(*ssa.Const)
				r.check(isC && c.Value != nil && c.Int64() >= 1, "C10.redeposit", newFuture, "channel capacity", mc.Pos(), "capacity >= 1", "unbuffered outcome channel: delivery and re-deposit block")
			}
		}
	}
	// no close() of outcome channels anywhere in the package (send on closed channel panics)
	for _, fn := range w.pkgFuncs("lib/concurrent") {
		for _, b := range fn.Blocks {
			for _, in := range b.Instrs {
				if c, ok := in.(*ssa.Call); ok {
					if bi, ok := c.Call.Value.(*ssa.Builtin); ok && bi.Name() == "close" {
						r.bad("C10.redeposit", fn, "close of a channel", c.Pos(), "closing an outcome channel makes the re-deposit panic")
					}
				}
			}
		}
	}

	// cancel-atomic
	li := e.locks(cancel)
	key := e.keyOf(cancel.Params[0]).String() + "." + w.roles().futureMu
	nacc, okAll := 0, true
	unlocks := 0
	for _, b := range cancel.Blocks {
		for _, in := range b.Instrs {
			if c, ok := in.(*ssa.Call); ok {
				if op, ok := e.mutexOp(&c.Call); ok && !op.acquire {
					unlocks++
				}
			}
			var fa *ssa.FieldAddr
			switch x := in.(type) {
			case *ssa.UnOp:
				fa, _ = x.X.(*ssa.FieldAddr)
			case *ssa.Store:
				fa, _ = x.Addr.(*ssa.FieldAddr)
			}
			if fa == nil {
				continue
			}
			fname := fieldName(fa.X.Type(), fa.Field)
			if fname != "Done" && fname != "Cancelled" {
				continue
			}
			nacc++
			if li.before[in][key] != 2 {
				okAll = false
			}
		}
	}
	r.check(okAll && unlocks == 0 && li.deferred[key] && nacc >= 3, "C10.cancel-atomic", cancel, "test-and-set of Done/Cancelled", cancel.Pos(), "all accesses inside one write-locked section released only at return", "the test of Done, the stores and the returned read are not one critical section")
	// cancel function called only on the not-done path
	for _, b := range cancel.Blocks {
		for _, in := range b.Instrs {
			ci, ok := in.(ssa.CallInstruction)
			if !ok {
				continue
			}
			ld, ok := ci.Common().Value.(*ssa.UnOp)
			if !ok {
				continue
			}
			fa, ok := ld.X.(*ssa.FieldAddr)
			if !ok || fieldName(fa.X.Type(), fa.Field) != "CancelFunc" {
				continue
			}
			_, isDefer := in.(*ssa.Defer)
			guarded := false
			var otherCond ssa.Instruction
			for _, d := range cancel.Blocks {
				if len(d.Instrs) == 0 {
					continue
				}
				iff, ok := d.Instrs[len(d.Instrs)-1].(*ssa.If)
				if !ok {
					continue
				}
				for i := 0; i < 2; i++ {
					if !edgeDominates(d, i, b) {
						continue
					}
					// condition is (a negation of) a load of Done
					cond, pol := iff.Cond, i == 0
					if u, ok := cond.(*ssa.UnOp); ok && u.Op == token.NOT {
						cond, pol = u.X, !pol
					}
					isDone := false
					if l2, ok := cond.(*ssa.UnOp); ok && l2.Op == token.MUL {
						if fa2, ok := l2.X.(*ssa.FieldAddr); ok && fieldName(fa2.X.Type(), fa2.Field) == "Done" {
							isDone = true
							if !pol {
								guarded = true
							}
						}
					}
					if !isDone {
						otherCond = iff
					}
				}
			}
			// "cancelling a future that has not completed returns true and marks it": whether the future has
			// completed is the only thing the decision rests on
			r.check(otherCond == nil, "C10.cancel-atomic", cancel, "what the cancellation depends on", in.Pos(), "the Done flag alone", "the cancellation is made to depend on a further condition ("+w.pos(instrPos(otherCondOr(otherCond, in)))+"): a future that has not completed can be left running, unmarked, with future-cancel answering false")
			r.check(guarded && !isDefer, "C10.cancel-atomic", cancel, "call of CancelFunc", in.Pos(), "only on the path where Done was false", "the body's context is cancelled even when the future had already completed (future-cancel must change nothing then)")
		}
	}
	r.Assumptions = append(r.Assumptions, "history-level statements (monotonicity as observed by callers) are decided only through the happens-before edges above")
}

// ---------------------------------------------------------------------------
// C11

func checkC11(w *World, r *Report) {
	e := newEngine(w)
	r.rule("C11.data", "every access to Env.data holds that Env's mutex (read mode for reads, write mode for writes) or is on an Env allocated in the current activation; the *NT methods are entered with the lock of their own receiver held, and the ascent to the outer scope goes through the locking entry points")
	r.rule("C11.pair", "every lock acquired in package env is released on every return")
	r.rule("C11.order", "while a scope lock is held the only other scope methods called are on the receiver itself or on its outer scope (child-then-parent order), and no call that can reach the evaluator is made")
	r.rule("C11.globals", "the only package-level variables written from the evaluator closure are the stepping flags, and every such write is control-dependent on Stepper != nil or on a stepping flag")
	guardRule(w, r, e, "C11.data", w.guardRows()[2])
	r.floor("C11.data", "accesses to Env.data and calls of lock-required methods", r.count("C11.data"), 10)
	n := pairRule(w, r, e, "C11.pair", w.pkgFuncs("env"))
	r.floor("C11.pair", "lock acquisitions/releases in package env", n, 8)

	// order + no evaluator under scope lock
	no := 0
	for _, fn := range w.pkgFuncs("env") {
		for _, lc := range e.callsUnderLock(fn, func(k string) bool { return strings.HasSuffix(k, "."+w.roles().envMu) }) {
			no++
			c := lc.in.Common()
			construct := "call " + describeCallInstr(e, lc.in) + " under " + lc.held.String()
			if bad, why := w.reachesEval(lc.in); bad {
				// the Update callback: callee set resolved structurally; accept only if none reaches the evaluator
				r.bad("C11.order", fn, construct, lc.in.Pos(), why+" while a scope lock is held")
				continue
			}
			// calls of locking Env methods: receiver must be <held>.outer or the call must not lock
			if sc := c.StaticCallee(); sc != nil && sc.Signature.Recv() != nil && len(e.locks(sc).acquires) > 0 {
				recvKey := e.keyOf(c.Args[0]).String()
				okOrder := false
				for k := range lc.held {
					base := strings.TrimSuffix(k, "."+w.roles().envMu)
					if recvKey == base+"->"+w.roles().envOuter {
						okOrder = true
					}
				}
				r.check(okOrder, "C11.order", fn, construct, lc.in.Pos(), "locks the outer scope while holding the inner one (child-then-parent)", "acquires another scope's lock that is not the holder's outer scope: lock-order inversion or self-deadlock")
				continue
			}
			// the same through the scope interface: a method of a scope that locks, called on a scope that is not
			// the holder's outer one (a scope found by a lookup may be the holder itself: a second read lock)
			if c.IsInvoke() && strings.HasSuffix(c.Value.Type().String(), "types.EnvType") {
				locksScope := false
				for _, d := range w.dynCallees(lc.in) {
					if fnPkgPath(d) == modPath+"/env" && len(e.locks(d).acquires) > 0 {
						locksScope = true
					}
				}
				if locksScope {
					recvKey := e.keyOf(c.Value).String()
					okOrder := false
					for k := range lc.held {
						base := strings.TrimSuffix(k, "."+w.roles().envMu)
						if recvKey == base+"->"+w.roles().envOuter {
							okOrder = true
						}
					}
					r.check(okOrder, "C11.order", fn, construct, lc.in.Pos(), "locks the outer scope while holding the inner one (child-then-parent)", "a locking method is called, with a scope lock held, on a scope that is not known to be the holder's outer scope ("+describeVal(e, c.Value, 0)+"): it may be the holder itself - a recursive read lock, which dead-locks as soon as a writer queues in between")
					continue
				}
			}
			r.ok("C11.order", fn, construct, lc.in.Pos(), "callee neither locks a scope nor reaches the evaluator")
		}
	}
	r.floor("C11.order", "calls made under a scope lock", no, 6)

	// globals
	a := newAudit(w, e, r, "C11.globals")
	a.computeClosure(evalEntries(w), func(f *ssa.Function) bool { return fnPkgPath(f) == modPath+"/reader" })
	type gstore struct {
		fn *ssa.Function
		st *ssa.Store
		g  *ssa.Global
	}
	var stores []gstore
	for _, fn := range a.closure {
		for _, b := range fn.Blocks {
			for _, in := range b.Instrs {
				if st, ok := in.(*ssa.Store); ok {
					if g, ok := st.Addr.(*ssa.Global); ok && strings.HasPrefix(g.Pkg.Pkg.Path(), modPath) {
						stores = append(stores, gstore{fn, st, g})
					}
				}
			}
		}
	}
	mm := newEvalModel(w, e)
	if !mm.ok {
		r.undecided("C11.globals", nil, "evaluator model", token.NoPos, mm.why)
	}
	for _, s := range stores {
		ok := mm.ok && mm.stepBlocks[s.st.Block()]
		r.check(ok, "C11.globals", s.fn, "write "+s.g.Name(), s.st.Pos(), "control-dependent on Stepper != nil (or on a stepping flag that is), directly or through a helper only called from such code", "package-level variable written from the evaluator without a stepper being installed: shared between concurrent evaluations")
	}
	r.floor("C11.globals", "writes to package-level variables in the evaluator closure", len(stores), 6)
	r.rule("C11.local", "local bindings of one evaluation are invisible to others: let variables, parameters and catch variables are written only into scopes created in the same region (fresh children), and the evaluator writes bindings into a non-fresh (possibly shared) scope only for def and defmacro (scope rules shared with C01.scope)")
	if m := newEvalModel(w, e); m.ok {
		ruleScope(m, r, "C11.local")
	} else {
		r.undecided("C11.local", nil, "evaluator model", token.NoPos, m.why)
	}
	capturedStateRule(w, r, e, "C11.captured-state")
	sharedObjectsRule(w, r, "C11.shared-objects")
	sharedStateRule(w, r, "C11.package-state")
	// the positions of the forms of a shared function are shared with the function: every evaluation that fails
	// there reads them (to print the error); nothing writes into a position it did not make itself
	r.rule("C11.positions-readonly", "every store into a field of a Position, in the runtime packages, goes to a Position allocated in the same activation: positions reachable from shared forms are only read, so evaluations that fail at the same form do not race on them (shared with C17.position-immutable)")
	npos := positionWrites(w, r, e, "C11.positions-readonly", func(fn *ssa.Function) bool { return runtimePkg(fnPkgPath(fn)) })
	r.floor("C11.positions-readonly", "writes to Position fields in the runtime packages", npos, 5)
	objectWritesRule(w, r, e, "C11.object-writes")
	tableEscapeRule(w, r, "C11.table-private")
	// a future bound to a global is read by any number of evaluations: each must get the outcome it gets alone
	r.include("C11.future-", "C10.", "an evaluation that only reads a shared global future returns what it returns alone: every reader gets the one outcome", checkC10, func(rule string) bool {
		switch rule {
		case "C10.redeposit", "C10.deref-waits", "C10.single-outcome", "C10.done-before-deliver", "C10.ctx", "C10.readers", "C10.outcome-own":
			// C10.ctx: the body of a future is stopped by its creator's context and by future-cancel only, so an
			// evaluation started by a program does not depend on which other evaluation happens to finish first
			return true
		}
		return false
	})
	// shared globals that are atoms: a swap! retried because another evaluation got in first computes what it
	// computes alone (the library's memoize, gensym and counters rest on it)
	r.include("C11.atom-", "C09.", "an evaluation that updates a shared atom with swap! gets f(current, args...) also when it has to retry", checkC09, func(rule string) bool {
		return rule == "C09.rmw" || rule == "C09.install" || rule == "C09.version" || rule == "C09.guard" || rule == "C09.lisp-monotone" || rule == "C09.no-reentry" || rule == "C09.version-width"
	})
	// "each evaluation that only reads shared globals ... returns exactly what it returns alone": the values the
	// globals hold are shared by all evaluations, so no builtin may write into a value it was handed
	r.include("C11.value-", "C02.", "a value bound to a shared global is never written by an evaluation that only reads it: builtins write only into storage they allocated", checkC02, func(rule string) bool {
		return rule == "C02.write" || rule == "C02.copyrecv"
	})
	// "every global definition is seen either entirely or not at all": a defining form binds its name once, to
	// the finished value
	r.include("C11.definition-", "C12.", "defmacro binds its name exactly once, to the marked closure: no other evaluation finds the name bound to an unfinished value", checkC12, func(rule string) bool {
		return rule == "C12.defmacro-once"
	})
	// "every global definition is seen either entirely or not at all": the scope's read-modify-write entry point
	// (Update) is one critical section, so two evaluations updating one global never lose an update
	r.include("C11.update-", "C20.", "Update reads, computes and stores under one write lock of the scope: concurrent updates of one global are serialised", checkC20, func(rule string) bool {
		return rule == "C20.registry-atomic"
	})
	r.rule("C11.no-reentry", "no function of package env acquires a scope's mutex while it already holds it, or calls with the lock held a function that locks the same scope (sync.RWMutex is not re-entrant even for readers: concurrent evaluations on the shared environment would block each other forever)")
	nre := reentryRule(w, r, e, "C11.no-reentry", w.pkgFuncs("env"))
	r.floor("C11.no-reentry", "calls and acquisitions made with a scope lock held", nre, 3)
	ownLockRule(w, r, e, "C11.own-lock")
	r.rule("C11.shared-state", "the atoms created while the embedded headers are loaded (outside every fn body) are shared by all evaluations on the environment; the confirmed inventory is a monotone counter (gensym) and a monotone set (load-file-once): any other load-time atom is state through which evaluations can see each other's data")
	loadTimeAtomRule(w, r, "C11.shared-state")
	r.rule("C11.lisp", "the library's per-evaluation unique values (gensym) come from the value swap! installed, not from a second read of the shared counter (shared with C09.lisp)")
	atomLint(w, r, "C11.lisp")
	r.Notes = append(r.Notes, "shared values are immutable (C02), so sharing globals between evaluations needs no lock beyond the scope lock")
	r.Assumptions = append(r.Assumptions, "'returns exactly what it returns when run alone' is behaviour and not decided; races inside host-supplied builtins and process state (os.Setenv) are outside")
}

// ctxDerivation follows a context value back to a context parameter of an
// enclosing function, through local cells (all stores must derive), captured
// variables and context.With{Cancel,Timeout,Deadline,Value} calls. ok=false if any
// source is context.Background()/TODO(), nil, or unknown.
// ctxParamArgs: set by the evaluator model; the arguments a helper's parameter stands for.
var ctxParamArgs func(p *ssa.Parameter) []ssa.Value

// ctxRoots collects the context parameters the last derivations bottomed out in (reset by the caller).
var ctxRoots []*ssa.Parameter

func ctxDerivation(e *Engine, v ssa.Value, seen map[ssa.Value]bool) ([]*ssa.Call, bool) {
	if seen[v] {
		return nil, true
	}
	seen[v] = true
	switch x := v.(type) {
	case *ssa.Parameter:
		if ctxParamArgs != nil && isContext(x.Type()) {
			// the context parameter of an evaluation helper stands for the arguments at its call sites
			if args := ctxParamArgs(x); len(args) > 0 {
				var all []*ssa.Call
				for _, a := range args {
					w, ok := ctxDerivation(e, a, seen)
					if !ok {
						return nil, false
					}
					all = append(all, w...)
				}
				return all, true
			}
		}
		if isContext(x.Type()) {
			ctxRoots = append(ctxRoots, x)
		}
		return nil, isContext(x.Type())
	case *ssa.Extract:
		if c, ok := x.Tuple.(*ssa.Call); ok && x.Index == 0 {
			if sc := c.Call.StaticCallee(); sc != nil && sc.Pkg != nil && sc.Pkg.Pkg.Path() == "context" && strings.HasPrefix(sc.Name(), "With") && sc.Name() != "WithoutCancel" {
				inner, ok := ctxDerivation(e, c.Call.Args[0], seen)
				return append(inner, c), ok
			}
		}
	case *ssa.Call:
		if sc := x.Call.StaticCallee(); sc != nil && sc.Pkg != nil && sc.Pkg.Pkg.Path() == "context" && strings.HasPrefix(sc.Name(), "With") && sc.Name() != "WithoutCancel" {
			inner, ok := ctxDerivation(e, x.Call.Args[0], seen)
			return append(inner, x), ok
		}
	case *ssa.Phi:
		var all []*ssa.Call
		for _, op := range x.Edges {
			w, ok := ctxDerivation(e, op, seen)
			if !ok {
				return nil, false
			}
			all = append(all, w...)
		}
		return all, true
	case *ssa.UnOp:
		if x.Op == token.MUL {
			if cell := cellOf(x.X); cell != nil {
				stores := e.storesTo(cell)
				if len(stores) == 0 {
					return nil, false
				}
				var all []*ssa.Call
				for _, st := range stores {
					w, ok := ctxDerivation(e, st.Val, seen)
					if !ok {
						return nil, false
					}
					all = append(all, w...)
				}
				return all, true
			}
		}
	case *ssa.FreeVar:
		if cell := cellOf(x); cell != nil {
			return ctxDerivation(e, cell, seen)
		}
	case *ssa.ChangeInterface:
		return ctxDerivation(e, x.X, seen)
	}
	return nil, false
}

// resolveRet looks through the spill of a result into a local result cell (functions with
// deferred calls return `*cell` after rundefers): the value stored to the cell in the same block.
func resolveRet(v ssa.Value) ssa.Value {
	ld, ok := v.(*ssa.UnOp)
	if !ok || ld.Op != token.MUL {
		return v
	}
	al, ok := ld.X.(*ssa.Alloc)
	if !ok {
		return v
	}
	b := ld.Block()
	var last ssa.Value
	for _, in := range b.Instrs {
		if in == ssa.Instruction(ld) {
			break
		}
		if st, ok := in.(*ssa.Store); ok && st.Addr == ssa.Value(al) {
			last = st.Val
		}
	}
	if last != nil {
		if last != v {
			return resolveRet(last) // a named result assigned from a local copy: follow the copy too
		}
		return last
	}
	return v
}

// futureBody: the function run by the one goroutine NewFuture starts (nil when it cannot be resolved).
func futureBody(w *World) *ssa.Function {
	nf := w.Fn("lib/concurrent", "NewFuture")
	if nf == nil {
		return nil
	}
	var body *ssa.Function
	for _, b := range nf.Blocks {
		for _, in := range b.Instrs {
			if g, ok := in.(*ssa.Go); ok {
				if mc, ok := g.Call.Value.(*ssa.MakeClosure); ok {
					body = mc.Fn.(*ssa.Function)
				} else if sc := g.Call.StaticCallee(); sc != nil {
					body = sc
				}
			}
		}
	}
	return body
}

// outcomeChanField: v is the channel stored in a field of a Future.
func outcomeChanField(v ssa.Value) (string, bool) {
	ld, ok := v.(*ssa.UnOp)
	if !ok || ld.Op != token.MUL {
		return "", false
	}
	fa, ok := ld.X.(*ssa.FieldAddr)
	if !ok {
		return "", false
	}
	t := fa.X.Type()
	if p, ok := t.Underlying().(*types.Pointer); ok {
		t = p.Elem()
	}
	n, ok := t.(*types.Named)
	if !ok || n.Obj().Name() != "Future" {
		return "", false
	}
	if _, isChan := ld.Type().Underlying().(*types.Chan); !isChan {
		return "", false
	}
	return fieldName(fa.X.Type(), fa.Field), true
}

// singleOutcomeRule: a future has one outcome.  The only sends on a future's outcome channels are the
// delivery in the body goroutine (at most one per run) and the re-deposit of a value that was just
// received from the same channel.  Any other sender puts a second value into the one-slot channels: a
// deref then returns either outcome, and a re-deposit can block forever (ignoring its context).
func singleOutcomeRule(w *World, r *Report, e *Engine, rule string) {
	r.rule(rule, "the only sends on a future's outcome channels are the single delivery of the body goroutine and the re-deposit, by a reader, of the value it has just received from that same channel (one outcome per future; the unguarded re-deposit cannot block)")
	body := futureBody(w)
	if body == nil {
		r.undecided(rule, nil, "goroutine body of NewFuture", token.NoPos, "cannot resolve the goroutine's function")
		return
	}
	inBody := map[*ssa.Function]bool{}
	for _, f := range w.withPkgHelpers(body) {
		inBody[f] = true
	}
	inBody[body] = true
	n := 0
	var bodySends []ssa.Instruction
	for _, fn := range w.Funcs {
		if isTestFunc(w, fn) || !strings.HasPrefix(fnPkgPath(fn), modPath) {
			continue
		}
		for _, b := range fn.Blocks {
			for _, in := range b.Instrs {
				type snd struct {
					ch, val ssa.Value
					pos     token.Pos
				}
				var sends []snd
				switch x := in.(type) {
				case *ssa.Send:
					sends = append(sends, snd{x.Chan, x.X, x.Pos()})
				case *ssa.Select:
					for _, st := range x.States {
						if st.Dir == types.SendOnly {
							sends = append(sends, snd{st.Chan, st.Send, st.Pos})
						}
					}
				}
				for _, s := range sends {
					field, ok := outcomeChanField(s.ch)
					if !ok {
						continue
					}
					n++
					construct := "send on " + field
					if inBody[fn] {
						bodySends = append(bodySends, in)
						r.ok(rule, fn, construct, s.pos, "delivery by the body goroutine")
						continue
					}
					// re-deposit: the value sent was received from the same channel field
					redeposit := false
					switch v := s.val.(type) {
					case *ssa.Extract:
						if sel, ok := v.Tuple.(*ssa.Select); ok {
							k := 0
							for _, st := range sel.States {
								if st.Dir != types.RecvOnly {
									continue
								}
								if f2, ok := outcomeChanField(st.Chan); ok && f2 == field && v.Index == 2+k {
									redeposit = true
								}
								k++
							}
						}
					case *ssa.UnOp:
						if v.Op == token.ARROW {
							if f2, ok := outcomeChanField(v.X); ok && f2 == field {
								redeposit = true
							}
						}
					}
					if p, ok := s.val.(*ssa.Parameter); ok && !redeposit {
						redeposit = receivedFromAtEverySite(w, e, p, field, 0)
					}
					r.check(redeposit, rule, fn, construct, s.pos, "re-deposit of the value just received from this channel", "a second sender on a future's outcome channel: the future gets two outcomes (derefs disagree, and the unguarded re-deposit of a reader can block forever)")
				}
			}
		}
	}
	// at most one delivery per run of the body
	for i, a := range bodySends {
		for j, b := range bodySends {
			if i != j && a.Parent() == b.Parent() && blockReaches(a.Block(), b.Block(), a.Block() == b.Block()) {
				r.bad(rule, a.Parent(), "two deliveries on one path", b.Pos(), "the body goroutine can send twice in one run")
			}
		}
	}
	r.floor(rule, "sends on outcome channels", n, 4)
}

// receivedFromAtEverySite: the parameter of an unexported function receives, at every call site, the value just
// received from the outcome channel field (a reader's re-deposit moved into a helper).
func receivedFromAtEverySite(w *World, e *Engine, p *ssa.Parameter, field string, depth int) bool {
	fn := p.Parent()
	if depth > 2 || fn.Object() == nil || fn.Object().Exported() || e.escapedFn(fn) {
		return false
	}
	args := w.callSiteArgs(p)
	if len(args) == 0 {
		return false
	}
	for _, a := range args {
		switch v := a.(type) {
		case *ssa.Extract:
			sel, ok := v.Tuple.(*ssa.Select)
			if !ok {
				return false
			}
			k, hit := 0, false
			for _, st := range sel.States {
				if st.Dir != types.RecvOnly {
					continue
				}
				if f2, ok := outcomeChanField(st.Chan); ok && f2 == field && v.Index == 2+k {
					hit = true
				}
				k++
			}
			if !hit {
				return false
			}
		case *ssa.UnOp:
			f2, ok := outcomeChanField(v.X)
			if v.Op != token.ARROW || !ok || f2 != field {
				return false
			}
		case *ssa.Parameter:
			if !receivedFromAtEverySite(w, e, v, field, depth+1) {
				return false
			}
		default:
			return false
		}
	}
	return true
}

// blockReaches: there is a path of at least one edge from a to b (or a == b and same is set for distinct instructions).
func blockReaches(a, b *ssa.BasicBlock, same bool) bool {
	if same {
		return true
	}
	seen := map[*ssa.BasicBlock]bool{}
	work := append([]*ssa.BasicBlock{}, a.Succs...)
	for len(work) > 0 {
		x := work[len(work)-1]
		work = work[:len(work)-1]
		if seen[x] {
			continue
		}
		seen[x] = true
		if x == b {
			return true
		}
		work = append(work, x.Succs...)
	}
	return false
}

// doneFlagRule: future-done? reports the Done flag and nothing else, and the flag is only ever set.
func doneFlagRule(w *World, r *Report, e *Engine, rule string) {
	r.rule(rule, "IsDone returns the receiver's Done field on every path (no other input, such as what the outcome channels momentarily hold), and the status flags Done and Cancelled of a shared future are only ever assigned true: once true, future-done? and future-cancelled? stay true")
	isDone := w.Fn("lib/concurrent", "(*Future).IsDone")
	if isDone == nil {
		r.undecided(rule, nil, "(*Future).IsDone", token.NoPos, "method no longer resolves")
		return
	}
	n := 0
	for _, f := range w.withPkgHelpers(isDone) {
		_ = f
	}
	for _, b := range isDone.Blocks {
		if len(b.Instrs) == 0 || b == isDone.Recover {
			continue
		}
		ret, ok := b.Instrs[len(b.Instrs)-1].(*ssa.Return)
		if !ok || len(ret.Results) != 1 {
			continue
		}
		n++
		v := resolveRet(ret.Results[0])
		okFlag := false
		if ld, ok := v.(*ssa.UnOp); ok && ld.Op == token.MUL {
			if fa, ok := ld.X.(*ssa.FieldAddr); ok && fieldName(fa.X.Type(), fa.Field) == "Done" && fa.X == ssa.Value(isDone.Params[0]) {
				okFlag = true
			}
		}
		// one of the results of a method of the same future that hands back the flags it read (`done, _ := f.state()`)
		if !okFlag {
			var hc *ssa.Call
			idx := 0
			switch y := v.(type) {
			case *ssa.Extract:
				hc, _ = y.Tuple.(*ssa.Call)
				idx = y.Index
			case *ssa.Call:
				hc = y
			}
			if hc != nil {
				if h := hc.Call.StaticCallee(); h != nil && h.Pkg == isDone.Pkg && len(h.Blocks) > 0 && len(h.Params) > 0 && len(hc.Call.Args) > 0 && hc.Call.Args[0] == ssa.Value(isDone.Params[0]) {
					all, nr := true, 0
					for _, hb := range h.Blocks {
						if len(hb.Instrs) == 0 || hb == h.Recover {
							continue
						}
						hr, ok := hb.Instrs[len(hb.Instrs)-1].(*ssa.Return)
						if !ok || idx >= len(hr.Results) {
							continue
						}
						nr++
						ld, ok := resolveRet(hr.Results[idx]).(*ssa.UnOp)
						if !ok || ld.Op != token.MUL {
							all = false
							continue
						}
						fa, ok := ld.X.(*ssa.FieldAddr)
						if !ok || fieldName(fa.X.Type(), fa.Field) != "Done" || fa.X != ssa.Value(h.Params[0]) {
							all = false
						}
					}
					okFlag = all && nr > 0
				}
			}
		}
		// read through a helper of the package that is handed the flag's address and returns what it holds
		if c, ok := v.(*ssa.Call); ok && !okFlag {
			if h := c.Call.StaticCallee(); h != nil && h.Pkg == isDone.Pkg && len(h.Blocks) > 0 {
				for i, a := range c.Call.Args {
					fa, ok := a.(*ssa.FieldAddr)
					if !ok || fieldName(fa.X.Type(), fa.Field) != "Done" || fa.X != ssa.Value(isDone.Params[0]) || i >= len(h.Params) {
						continue
					}
					all, nr := true, 0
					for _, hb := range h.Blocks {
						if len(hb.Instrs) == 0 || hb == h.Recover {
							continue
						}
						hr, ok := hb.Instrs[len(hb.Instrs)-1].(*ssa.Return)
						if !ok || len(hr.Results) != 1 {
							continue
						}
						nr++
						ld, ok := resolveRet(hr.Results[0]).(*ssa.UnOp)
						if !ok || ld.Op != token.MUL || ld.X != ssa.Value(h.Params[i]) {
							all = false
						}
					}
					okFlag = all && nr > 0
				}
			}
		}
		r.check(okFlag, rule, isDone, "value returned by IsDone", ret.Pos(), "the Done flag of the receiver", "future-done? is computed from something other than the Done flag ("+describeVal(e, v, 0)+"): it can be false after having been true or after a deref has returned")
	}
	for _, fn := range w.Funcs {
		if isTestFunc(w, fn) || !strings.HasPrefix(fnPkgPath(fn), modPath) {
			continue
		}
		for _, b := range fn.Blocks {
			for _, in := range b.Instrs {
				st, ok := in.(*ssa.Store)
				if !ok {
					continue
				}
				fa, ok := st.Addr.(*ssa.FieldAddr)
				flag := ""
				if ok {
					flag = fieldName(fa.X.Type(), fa.Field)
				}
				if flag != "Done" && flag != "Cancelled" {
					continue
				}
				t := fa.X.Type()
				if p, ok := t.Underlying().(*types.Pointer); ok {
					t = p.Elem()
				}
				if nt, ok := t.(*types.Named); !ok || nt.Obj().Name() != "Future" {
					continue
				}
				if _, fresh := fa.X.(*ssa.Alloc); fresh {
					continue // initialisation of a future nobody else has yet
				}
				n++
				c, isC := st.Val.(*ssa.Const)
				what := map[string]string{"Done": "future-done?", "Cancelled": "future-cancelled?"}[flag]
				r.check(isC && c.Value != nil && c.Value.Kind() == constant.Bool && constant.BoolVal(c.Value), rule, fn, "store to "+flag, st.Pos(), "only ever set to true", flag+" is assigned something other than true: "+what+" can go back to false")
			}
		}
	}
	r.floor(rule, "returns of IsDone and stores to the status flags", n, 4)
}

// capturedStateRule: a function value registered as a builtin is called by any number of evaluations at the
// same time; whatever it captured from the registration activation is shared by all of them.  It may read
// it, but never write it: no assignment to a captured variable, no element/map write into captured storage,
// directly or through a callee that writes through the parameter it is handed.
func capturedStateRule(w *World, r *Report, e *Engine, rule string) {
	r.rule(rule, "closures registered as builtins (the binder's adapters and the closures passed to call.Call) write nothing they captured from the registration activation: no assignment to a captured variable and no write into captured storage, directly or through a callee (such state would be shared, unlocked, by all concurrent calls)")
	var clos []*ssa.Function
	seen := map[*ssa.Function]bool{}
	add := func(f *ssa.Function) {
		if f != nil && f.Parent() != nil && !seen[f] && !isTestFunc(w, f) {
			seen[f] = true
			clos = append(clos, f)
		}
	}
	for _, f := range w.registeredFuncs() {
		add(f)
	}
	if callFn := w.Fn("lib/call", "call"); callFn != nil {
		for _, f := range w.withPkgHelpers(callFn) {
			for _, an := range allAnon(f) {
				add(an)
			}
		}
	}
	n := 0
	for _, cl := range clos {
		for i, fv := range cl.FreeVars {
			n++
			var bad []string
			var visit func(v ssa.Value, depth int)
			visited := map[ssa.Value]bool{}
			visit = func(v ssa.Value, depth int) {
				if depth > 6 || visited[v] {
					return
				}
				visited[v] = true
				for _, ref := range *v.Referrers() {
					switch u := ref.(type) {
					case *ssa.Store:
						if u.Addr == v {
							bad = append(bad, "assignment at "+w.pos(u.Pos()))
						}
					case *ssa.UnOp:
						if u.Op == token.MUL {
							visit(u, depth+1) // the captured value itself
						}
					case *ssa.IndexAddr:
						for _, u2 := range *u.Referrers() {
							if st, ok := u2.(*ssa.Store); ok && st.Addr == ssa.Value(u) {
								bad = append(bad, "element write at "+w.pos(st.Pos()))
							}
						}
					case *ssa.MapUpdate:
						if u.Map == v {
							bad = append(bad, "map write at "+w.pos(u.Pos()))
						}
					case *ssa.Slice:
						visit(u, depth+1)
					case *ssa.Phi:
						visit(u, depth+1)
					case ssa.CallInstruction:
						c := u.Common()
						if bi, ok := c.Value.(*ssa.Builtin); ok {
							if (bi.Name() == "append" || bi.Name() == "copy" || bi.Name() == "delete" || bi.Name() == "clear") && len(c.Args) > 0 && c.Args[0] == v {
								bad = append(bad, bi.Name()+" at "+w.pos(u.Pos()))
							}
							continue
						}
						callee := c.StaticCallee()
						if callee == nil || len(callee.Blocks) == 0 {
							continue
						}
						for k, a := range c.Args {
							if a != v || k >= len(callee.Params) {
								continue
							}
							switch a.Type().Underlying().(type) {
							case *types.Slice, *types.Map:
								if writesParam(callee, k, map[*ssa.Function]bool{}, 0) {
									bad = append(bad, "handed to "+callee.Name()+", which writes through it, at "+w.pos(u.Pos()))
								}
							}
						}
					}
				}
			}
			visit(fv, 0)
			_ = i
			r.check(len(bad) == 0, rule, cl, "captured "+fv.Name(), cl.Pos(), "only read", "captured "+fv.Name()+" is written by the registered closure ("+strings.Join(bad, "; ")+"): concurrent calls share and overwrite it")
		}
	}
	r.floor(rule, "variables captured by registered closures", n, 6)
}

// casExactRule: the versioned install of an atom installs exactly when the version still matches and says so:
// the only condition between entry and the store is the version comparison, every `true` result is reached
// through the store, and every caller looks at the result (an install that silently did not happen is a lost update).
func casExactRule(w *World, r *Report, e *Engine, rule string) {
	r.rule(rule, "the atom's versioned install stores the new value under no other condition than the version comparison, reports true only after storing, and its result is examined at every call site (a discarded result means an update can be dropped silently)")
	n := 0
	for _, fn := range w.pkgFuncs("lib/concurrent") {
		if !isAtomCAS(w, e, fn) {
			continue
		}
		var installs []ssa.Instruction
		for _, b := range fn.Blocks {
			for _, in := range b.Instrs {
				switch x := in.(type) {
				case *ssa.Store:
					if fa, ok := x.Addr.(*ssa.FieldAddr); ok && fa.X == ssa.Value(fn.Params[0]) && fieldName(fa.X.Type(), fa.Field) == "Val" {
						installs = append(installs, in)
					}
				case *ssa.Call:
					if callee := x.Call.StaticCallee(); callee != nil && len(x.Call.Args) >= 1 && x.Call.Args[0] == ssa.Value(fn.Params[0]) && storesRecvField(callee, "Val") {
						installs = append(installs, in)
					}
				}
			}
		}
		for _, in := range installs {
			n++
			var extra []string
			for _, a := range knownConds(in.Block()) {
				d := describeVal(e, a.v, 0)
				if strings.Contains(d, e.w.roles().atomVersion) {
					continue
				}
				extra = append(extra, d)
			}
			r.check(len(extra) == 0, rule, fn, "conditions on the install", in.Pos(), "the version comparison only", "the install also depends on "+strings.Join(extra, ", ")+": with an unchanged version the new value may still not be stored, although the caller is told (or assumes) it was")
		}
		for _, b := range fn.Blocks {
			if len(b.Instrs) == 0 {
				continue
			}
			ret, ok := b.Instrs[len(b.Instrs)-1].(*ssa.Return)
			if !ok || len(ret.Results) != 1 {
				continue
			}
			v := resolveRet(ret.Results[0])
			if c, ok := v.(*ssa.Const); ok && c.Value != nil && c.Value.Kind() == constant.Bool && !constant.BoolVal(c.Value) {
				continue
			}
			n++
			dom := false
			for _, in := range installs {
				if in.Block() == b || in.Block().Dominates(b) {
					dom = true
				}
			}
			// a computed result (unchanged := version == v) is fine when the install is on its true edge: covered above
			if _, isConst := v.(*ssa.Const); !isConst {
				dom = true
			}
			r.check(dom, rule, fn, "result true", ret.Pos(), "only after the value was stored", "the install reports success on a path that did not store the value")
		}
		// call sites
		for _, caller := range w.Funcs {
			if isTestFunc(w, caller) {
				continue
			}
			for _, c := range staticCallsTo(caller, fn) {
				n++
				used := false
				for _, ref := range *c.Referrers() {
					switch ref.(type) {
					case *ssa.If, *ssa.Return, *ssa.UnOp, *ssa.BinOp, *ssa.Phi, *ssa.Store:
						used = true
					}
				}
				r.check(used, rule, caller, "result of the versioned install", c.Pos(), "examined", "the result of the versioned install is discarded: when another update got in first this one is dropped without anyone noticing (the caller still reports the value as installed)")
			}
		}
	}
	r.floor(rule, "installs, results and call sites of the versioned install", n, 3)
}

// futureWritersRule: only Cancel (and the body goroutine) change a future's state; the reading methods do not
// cancel it.
func futureWritersRule(w *World, r *Report, e *Engine, rule string) {
	r.rule(rule, "the methods that read a future (Deref, IsDone, IsCancelled, printing) neither call Cancel / the cancel function nor write Done or Cancelled, directly or through a function of the package: a reader that gives up does not change the future for the other readers (only Cancel and the body goroutine change its state)")
	isFuture := func(t types.Type) bool { return strings.HasSuffix(derefType(t).String(), "Future") }
	// functions that change a future's state themselves
	writes := map[*ssa.Function]string{}
	for _, fn := range w.pkgFuncs("lib/concurrent") {
		for _, b := range fn.Blocks {
			for _, in := range b.Instrs {
				switch x := in.(type) {
				case *ssa.Store:
					if fa, ok := x.Addr.(*ssa.FieldAddr); ok && isFuture(fa.X.Type()) {
						if f := fieldName(fa.X.Type(), fa.Field); f == "Done" || f == "Cancelled" {
							writes[fn] = "writes " + f
						}
					}
				case ssa.CallInstruction:
					if ld, ok := x.Common().Value.(*ssa.UnOp); ok {
						if fa, ok := ld.X.(*ssa.FieldAddr); ok && fieldName(fa.X.Type(), fa.Field) == "CancelFunc" {
							writes[fn] = "calls the cancel function"
						}
					}
				}
			}
		}
	}
	// transitively through static calls inside the package
	var reaches func(fn *ssa.Function, seen map[*ssa.Function]bool) string
	reaches = func(fn *ssa.Function, seen map[*ssa.Function]bool) string {
		if why, ok := writes[fn]; ok {
			return fn.Name() + " " + why
		}
		if seen[fn] {
			return ""
		}
		seen[fn] = true
		for _, g := range append([]*ssa.Function{fn}, allAnon(fn)...) {
			for _, b := range g.Blocks {
				for _, in := range b.Instrs {
					if ci, ok := in.(ssa.CallInstruction); ok {
						if _, isGo := in.(*ssa.Go); isGo {
							continue
						}
						if sc := ci.Common().StaticCallee(); sc != nil && sc.Pkg == fn.Pkg {
							if why := reaches(sc, seen); why != "" {
								return why
							}
						}
					}
				}
			}
		}
		return ""
	}
	bodySet := map[*ssa.Function]bool{}
	if body := futureBody(w); body != nil {
		for _, f := range w.withPkgHelpers(body) {
			bodySet[f] = true
		}
		bodySet[body] = true
	}
	n := 0
	for _, fn := range w.pkgFuncs("lib/concurrent") {
		if fn.Signature.Recv() == nil || !isFuture(fn.Signature.Recv().Type()) || fn.Name() == "Cancel" || bodySet[fn] {
			continue
		}
		n++
		why := reaches(fn, map[*ssa.Function]bool{})
		r.check(why == "", rule, fn, "state changes made by a reading method", fn.Pos(), "none", fn.Name()+" changes the future's state ("+why+"): one reader changes what every other reader of the future sees (cancelled / done without future-cancel)")
	}
	r.floor(rule, "methods of Future other than Cancel and the body", n, 3)
}

// writesAtomVal: fn (or a function of its package it calls) stores Atom.Val.
func writesAtomVal(w *World, fn *ssa.Function, seen map[*ssa.Function]bool) bool {
	if seen[fn] {
		return false
	}
	seen[fn] = true
	for _, b := range fn.Blocks {
		for _, in := range b.Instrs {
			switch x := in.(type) {
			case *ssa.Store:
				if fa, ok := x.Addr.(*ssa.FieldAddr); ok && fieldName(fa.X.Type(), fa.Field) == "Val" {
					if _, name, ok := w.namedStruct(derefType(fa.X.Type())); ok && name == "Atom" {
						return true
					}
				}
			case ssa.CallInstruction:
				if sc := x.Common().StaticCallee(); sc != nil && sc.Pkg == fn.Pkg && writesAtomVal(w, sc, seen) {
					return true
				}
			}
		}
	}
	return false
}

// cancelAnswerRule: future-cancel answers what Cancel answers.
func cancelAnswerRule(w *World, r *Report, e *Engine, rule string) {
	r.rule(rule, "every builtin that cancels a future returns the result of Cancel itself on every path, with no test of its own in front (Cancel decides under the lock; a second look at the flags outside it gives answers that contradict future-cancelled?)")
	cancel := w.Fn("lib/concurrent", "(*Future).Cancel")
	if cancel == nil {
		r.undecided(rule, nil, "(*Future).Cancel", token.NoPos, "method no longer resolves")
		return
	}
	n := 0
	for _, fn := range w.Funcs {
		if isTestFunc(w, fn) || !strings.HasPrefix(fnPkgPath(fn), modPath) || fn == cancel {
			continue
		}
		calls := staticCallsTo(fn, cancel)
		if len(calls) == 0 {
			continue
		}
		for _, rt := range errorReturns(fn) {
			ret := rt[0].(*ssa.Return)
			v, _ := rt[1].(ssa.Value)
			ev, _ := rt[2].(ssa.Value)
			if v == nil || (ev != nil && !isNilConst(ev)) {
				continue
			}
			n++
			okV := false
			for _, c := range calls {
				if unboxed(v) == ssa.Value(c) {
					okV = true
				}
			}
			r.check(okV, rule, fn, "answer of a cancelling builtin", ret.Pos(), "the result of Cancel", "a path answers without asking Cancel ("+describeVal(e, v, 0)+"): the answer is taken from flags read outside Cancel's critical section")
		}
	}
	r.floor(rule, "success returns of builtins that call Cancel", n, 1)
}

// sharedStateRule: every package-level variable of the library that is written after initialisation is state all
// evaluations share.  The confirmed inventory is the debugger's stepping flags (written only while a stepper is
// installed: C11.globals).  Anything else - a cache, a counter, a scratch buffer, a sync.Map - is reported.
func sharedStateRule(w *World, r *Report, rule string, onlyPkgs ...string) {
	r.rule(rule, "outside package initialisation no function of the library assigns a package-level variable, writes into storage one holds, updates a package-level sync container or sends on / receives from a package-level channel, except the debugger's stepping flags (C11.globals): caches, counters and scratch buffers at package level are shared, unlocked or not, by every evaluation")
	allowed := map[string]bool{}
	if m := newEvalModel(w, newEngine(w)); m.ok {
		for g := range m.flags {
			allowed[g.Name()] = true
		}
	}
	n := 0
	for _, fn := range w.Funcs {
		if isTestFunc(w, fn) || !libraryPkg(fnPkgPath(fn)) || fn.Name() == "init" || strings.HasSuffix(fnPkgPath(fn), "/debugger") {
			continue
		}
		if len(onlyPkgs) > 0 {
			in := false
			for _, p := range onlyPkgs {
				in = in || fnPkgPath(fn) == modPath+"/"+p || (p == "" && fnPkgPath(fn) == modPath)
			}
			if !in {
				continue
			}
		}
		for _, b := range fn.Blocks {
			for _, in := range b.Instrs {
				var g *ssa.Global
				what := ""
				switch x := in.(type) {
				case *ssa.Store:
					if gl, ok := x.Addr.(*ssa.Global); ok {
						g, what = gl, "assignment"
					}
					if ia, ok := x.Addr.(*ssa.IndexAddr); ok {
						if ld, ok := ia.X.(*ssa.UnOp); ok {
							if gl, ok := ld.X.(*ssa.Global); ok {
								g, what = gl, "element write"
							}
						}
					}
					if fa, ok := x.Addr.(*ssa.FieldAddr); ok {
						if gl, ok := fa.X.(*ssa.Global); ok {
							g, what = gl, "field write"
						}
					}
				case *ssa.MapUpdate:
					if ld, ok := x.Map.(*ssa.UnOp); ok {
						if gl, ok := ld.X.(*ssa.Global); ok {
							g, what = gl, "map write"
						}
					}
				case *ssa.Send:
					// a package-level channel used as a pool or mailbox: what one evaluation puts in another takes out
					if ld, ok := x.Chan.(*ssa.UnOp); ok {
						if gl, ok := ld.X.(*ssa.Global); ok {
							g, what = gl, "send on the channel"
						}
					}
				case *ssa.Select:
					for _, st := range x.States {
						if ld, ok := st.Chan.(*ssa.UnOp); ok {
							if gl, ok := ld.X.(*ssa.Global); ok {
								g, what = gl, "send or receive (select) on the channel"
							}
						}
					}
				case *ssa.UnOp:
					if x.Op == token.ARROW {
						if ld, ok := x.X.(*ssa.UnOp); ok {
							if gl, ok := ld.X.(*ssa.Global); ok {
								g, what = gl, "receive from the channel"
							}
						}
					}
				case ssa.CallInstruction:
					c := x.Common()
					sc := c.StaticCallee()
					if sc != nil && sc.Signature.Recv() == nil && len(c.Args) > 0 && fnPkgPath(sc) == "sync/atomic" && !strings.HasPrefix(sc.Name(), "Load") {
						// atomic.AddInt32(&counter, 1): race-free, and shared by every evaluation all the same
						if gl, ok := c.Args[0].(*ssa.Global); ok {
							g, what = gl, "atomic."+sc.Name()
						}
					}
					if sc != nil && sc.Signature.Recv() != nil && len(c.Args) > 0 && (fnPkgPath(sc) == "sync" || fnPkgPath(sc) == "sync/atomic") {
						rt := sc.Signature.Recv().Type().String()
						if !strings.Contains(rt, "Mutex") && !strings.Contains(rt, "Once") && !strings.Contains(rt, "WaitGroup") {
							if gl, ok := c.Args[0].(*ssa.Global); ok {
								switch sc.Name() {
								case "Load", "Range", "Get":
								default:
									g, what = gl, sc.Name()
								}
							}
						}
					}
				}
				if g == nil || !strings.HasPrefix(g.Pkg.Pkg.Path(), modPath) || strings.HasPrefix(g.Name(), "init$") {
					continue
				}
				n++
				if allowed[g.Name()] {
					r.ok(rule, fn, what+" of "+g.Name(), in.Pos(), "stepping flag of the debugger (written only under a stepper: C11.globals)")
				} else {
					r.bad(rule, fn, what+" of package variable "+g.Name(), in.Pos(), "package-level state written while programs run: every evaluation on every environment shares it")
				}
			}
		}
	}
	if len(onlyPkgs) == 0 {
		r.floor(rule, "writes to package-level state in the library", n, 3)
	} else {
		r.add(rule, nil, "package-level state of "+strings.Join(onlyPkgs, ", "), token.NoPos, "ok", fmt.Sprintf("%d writes or channel operations found", n))
	}
}

// reachesAvoiding: is there a path from a to b (a != b allowed to be equal: then true) that enters no block of avoid?
func reachesAvoiding(a, b *ssa.BasicBlock, avoid map[*ssa.BasicBlock]bool) bool {
	if a == b {
		return true
	}
	seen := map[*ssa.BasicBlock]bool{a: true}
	work := []*ssa.BasicBlock{a}
	for len(work) > 0 {
		x := work[len(work)-1]
		work = work[:len(work)-1]
		for _, s := range x.Succs {
			if seen[s] || avoid[s] {
				continue
			}
			if s == b {
				return true
			}
			seen[s] = true
			work = append(work, s)
		}
	}
	return false
}

// derefContextRule: a deref waits for the outcome "or until the caller's context ends": whoever calls Deref on a
// reference hands over the very context it was given, not one that ends earlier.
func derefContextRule(w *World, r *Report, rule string) {
	r.rule(rule, "every call of a reference's Deref in the library passes the calling function's own context parameter (through helpers: at every call site), never a context derived from it that ends earlier: a reader is not sent away with a timeout while its own context is still alive and the outcome would arrive in time")
	n := 0
	var own func(v ssa.Value, depth int) bool
	own = func(v ssa.Value, depth int) bool {
		p, ok := v.(*ssa.Parameter)
		if !ok || depth > 4 {
			return false
		}
		fn := p.Parent()
		if fn.Parent() == nil && fn.Object() != nil && !fn.Object().Exported() {
			// an unexported helper: what its callers pass
			if args := w.callSiteArgs(p); len(args) > 0 {
				for _, a := range args {
					if !own(a, depth+1) {
						// a registered builtin is called by the binder with the evaluation's context
						if _, isParam := a.(*ssa.Parameter); !isParam {
							return false
						}
					}
				}
			}
		}
		return true
	}
	for _, fn := range w.Funcs {
		if isTestFunc(w, fn) || !libraryPkg(fnPkgPath(fn)) {
			continue
		}
		for _, b := range fn.Blocks {
			for _, in := range b.Instrs {
				ci, ok := in.(ssa.CallInstruction)
				if !ok || !ci.Common().IsInvoke() || ci.Common().Method.Name() != "Deref" || len(ci.Common().Args) != 1 || !isContext(ci.Common().Args[0].Type()) {
					continue
				}
				n++
				r.check(own(ci.Common().Args[0], 0), rule, fn, "context a deref waits under", in.Pos(), "the caller's own context", "the reference is dereferenced under a context other than the one the caller was given ("+describeVal(nil, ci.Common().Args[0], 0)+"): the wait can end - with a timeout error - while the caller's context is alive, and a later reader then gets the value (readers disagree)")
			}
		}
	}
	r.floor(rule, "calls of Deref in the library", n, 1)
}

// allocatesResult: every return of the module function hands back storage the function allocated itself
// (a slice literal, make, or append onto one of those): a new list on every call.
func allocatesResult(fn *ssa.Function) bool {
	if fn == nil || !inModule(fn) || len(fn.Blocks) == 0 || fn.Signature.Results().Len() != 1 {
		return false
	}
	n := 0
	for _, b := range fn.Blocks {
		ret, ok := b.Instrs[len(b.Instrs)-1].(*ssa.Return)
		if !ok {
			continue
		}
		root := storageRoot(resolveRet(ret.Results[0]))
		ri, isInstr := root.(ssa.Instruction)
		if root == nil || !isInstr || ri.Parent() != fn {
			return false
		}
		if al, isAlloc := root.(*ssa.Alloc); isAlloc && !al.Heap {
			return false
		}
		n++
	}
	return n > 0
}

// identityObjectsRule: atoms and futures are objects with identity: programs hold references to one object,
// whose lock, channels, flags and value are that object's alone. They are allocated only by their own
// package; a second object built elsewhere from the parts of an existing one (a "copy with new metadata")
// shares the outcome slots or the value but not the flags and the lock that go with them.
func identityObjectsRule(w *World, r *Report, rule string, typeNames ...string) {
	r.rule(rule, "values of the reference types of lib/concurrent ("+strings.Join(typeNames, ", ")+") are allocated only inside that package (by their constructors): no other package builds one, from scratch or from the fields of an existing one, so every reference to an atom or future refers to the one object with its one lock, its one set of flags and its one set of outcome slots")
	want := map[string]bool{}
	for _, n := range typeNames {
		want[n] = true
	}
	n := 0
	for _, fn := range w.Funcs {
		if isTestFunc(w, fn) || !inModule(fn) {
			continue
		}
		for _, b := range fn.Blocks {
			for _, in := range b.Instrs {
				al, ok := in.(*ssa.Alloc)
				if !ok {
					continue
				}
				pr, name, ok := w.namedStruct(al.Type())
				if !ok || pr != "lib/concurrent" || !want[name] {
					continue
				}
				n++
				r.check(strings.HasSuffix(fnPkgPath(fn), "/lib/concurrent"), rule, fn, "allocation of a "+name, al.Pos(), "inside lib/concurrent", "a "+name+" is built outside its package: it is a second object beside the one programs already refer to - what is done to one (cancel, completion, an update) does not show on the other")
			}
		}
	}
	r.floor(rule, "allocations of "+strings.Join(typeNames, "/"), n, 1)
}

// cancelFlagRule: future-cancelled? is true only after future-cancel: the flag is raised only in a function
// that calls the future's cancel function under the same critical section - not by the body goroutine, which
// cannot tell a cancel from a deadline of its creator.
func cancelFlagRule(w *World, r *Report, rule string) {
	r.rule(rule, "the Cancelled flag of a future is assigned only in a function that also calls that future's cancel function (Cancel): the body goroutine and the readers never raise it, so future-cancelled? is true only for a future that was cancelled with future-cancel")
	n := 0
	for _, fn := range w.Funcs {
		if isTestFunc(w, fn) || !inModule(fn) {
			continue
		}
		for _, b := range fn.Blocks {
			for _, in := range b.Instrs {
				st, ok := in.(*ssa.Store)
				if !ok {
					continue
				}
				fa, ok := st.Addr.(*ssa.FieldAddr)
				if !ok || fieldName(fa.X.Type(), fa.Field) != "Cancelled" {
					continue
				}
				if _, name, ok := w.namedStruct(fa.X.Type()); !ok || name != "Future" {
					continue
				}
				if _, fresh := fa.X.(*ssa.Alloc); fresh {
					continue
				}
				n++
				calls := false
				for _, b2 := range fn.Blocks {
					for _, in2 := range b2.Instrs {
						c, ok := in2.(*ssa.Call)
						if !ok || c.Call.IsInvoke() || c.Call.StaticCallee() != nil {
							continue
						}
						if ld, ok := c.Call.Value.(*ssa.UnOp); ok {
							if cfa, ok := ld.X.(*ssa.FieldAddr); ok && cfa.X == fa.X && strings.Contains(cfa.Type().String(), "context.CancelFunc") {
								calls = true
							}
						}
					}
				}
				r.check(calls, rule, fn, "store to Cancelled", st.Pos(), "in the function that calls the future's cancel function", "the flag is raised by "+w.fnName(fn)+", which does not cancel the future: a future that was never cancelled (its creator's deadline passed, its body failed) answers true to future-cancelled?, and a later future-cancel reports success")
			}
		}
	}
	r.floor(rule, "stores to Future.Cancelled", n, 1)
}

// derefSourceRule: deref answers with the value installed in the atom: what (*Atom).Deref returns is the Val
// field of its receiver read under the atom's lock (directly or through a method of the atom that returns it),
// not a copy kept somewhere else that an update could miss.
func derefSourceRule(w *World, r *Report, e *Engine, rule string) {
	r.rule(rule, "every value (*Atom).Deref returns is the Val field of its receiver, loaded there or handed back by a method of the atom that loads it: there is no second place an atom's value is kept (a snapshot, a cache) that an update could fail to reach")
	df := w.Fn("lib/concurrent", "(*Atom).Deref")
	if df == nil {
		r.undecided(rule, nil, "(*Atom).Deref", token.NoPos, "method no longer resolves")
		return
	}
	// isValAt: every return of callee hands back the Val field of its parameter number pi
	var isValAt func(c *ssa.Call, callee *ssa.Function, pi int, depth int) bool
	isValAt = func(c *ssa.Call, callee *ssa.Function, pi int, depth int) bool {
		if depth > 4 {
			return false
		}
		n := 0
		for _, b := range callee.Blocks {
			if b == callee.Recover {
				continue
			}
			ret, ok := b.Instrs[len(b.Instrs)-1].(*ssa.Return)
			if !ok || len(ret.Results) == 0 {
				continue
			}
			n++
			ld, ok := resolveRet(ret.Results[0]).(*ssa.UnOp)
			if !ok || ld.Op != token.MUL {
				return false
			}
			fa, ok := ld.X.(*ssa.FieldAddr)
			if !ok || fieldName(fa.X.Type(), fa.Field) != "Val" || fa.X != ssa.Value(callee.Params[pi]) {
				return false
			}
		}
		return n > 0
	}
	var isVal func(v ssa.Value, fn *ssa.Function, depth int) bool
	isVal = func(v ssa.Value, fn *ssa.Function, depth int) bool {
		if depth > 4 {
			return false
		}
		switch x := v.(type) {
		case *ssa.UnOp:
			if fa, ok := x.X.(*ssa.FieldAddr); ok && x.Op == token.MUL && fieldName(fa.X.Type(), fa.Field) == "Val" && fa.X == ssa.Value(fn.Params[0]) {
				return true
			}
		case *ssa.Extract:
			if c, ok := x.Tuple.(*ssa.Call); ok && x.Index == 0 {
				return isVal(c, fn, depth)
			}
		case *ssa.Call:
			callee := x.Call.StaticCallee()
			if callee == nil || !inModule(callee) || len(callee.Blocks) == 0 {
				return false
			}
			// the atom is handed on as the callee's receiver or as one of its arguments
			pi := -1
			for i, a := range x.Call.Args {
				if a == ssa.Value(fn.Params[0]) && i < len(callee.Params) {
					pi = i
				}
			}
			if pi < 0 {
				return false
			}
			if pi != 0 {
				// judged with that parameter in the receiver's place
				return isValAt(x, callee, pi, depth)
			}
			n := 0
			for _, b := range callee.Blocks {
				if b == callee.Recover {
					continue
				}
				if ret, ok := b.Instrs[len(b.Instrs)-1].(*ssa.Return); ok && len(ret.Results) > 0 {
					n++
					if !isVal(resolveRet(ret.Results[0]), callee, depth+1) {
						return false
					}
				}
			}
			return n > 0
		case *ssa.Phi:
			for _, ed := range x.Edges {
				if !isVal(ed, fn, depth+1) {
					return false
				}
			}
			return len(x.Edges) > 0
		}
		return false
	}
	n := 0
	for _, rt := range errorReturns(df) {
		ret := rt[0].(*ssa.Return)
		v, _ := rt[1].(ssa.Value)
		ev, _ := rt[2].(ssa.Value)
		if v == nil || (ev != nil && !isNilConst(ev)) {
			continue
		}
		n++
		r.check(isVal(v, df, 0), rule, df, "value returned by deref", ret.Pos(), "the receiver's Val", "deref answers with "+describeVal(e, v, 0)+", not with the atom's value field: a value kept beside the atom (published without the lock, or refreshed late) can be older than what reset! or swap! already returned")
	}
	r.floor(rule, "successful returns of (*Atom).Deref", n, 1)
}

// derefBuiltinRule: @x is one Deref of x: the builtin hands back what that one call returned. It does not go
// on to dereference the value it found (an atom that holds an atom, a future or itself is a value like any
// other: "deref returns the latest installed value"), and it does not loop.
func derefBuiltinRule(w *World, r *Report, rule string) {
	r.rule(rule, "the deref builtin makes exactly one Deref call on its argument, outside any loop, and returns that call's results: the value installed in an atom is what @ yields, also when that value is itself an atom or a future")
	fn := w.builtin("deref")
	if fn == nil {
		r.undecided(rule, nil, "builtin deref", token.NoPos, "the function registered as deref no longer resolves")
		return
	}
	var calls []ssa.CallInstruction
	for _, f := range w.withPkgHelpers(fn) {
		for _, b := range f.Blocks {
			for _, in := range b.Instrs {
				if ci, ok := in.(ssa.CallInstruction); ok && ci.Common().IsInvoke() && ci.Common().Method.Name() == "Deref" {
					calls = append(calls, ci)
				}
			}
		}
		r.check(len(naturalLoops(f)) == 0, rule, f, "straight-line deref", f.Pos(), "no loop", "the deref builtin loops: it keeps dereferencing what it finds, so an atom holding a reference yields something other than its value (and an atom holding itself never yields)")
	}
	r.check(len(calls) == 1, rule, fn, "Deref calls made by the builtin", fn.Pos(), "exactly one", fmt.Sprintf("%d Deref calls: the value found is dereferenced again", len(calls)))
	if len(calls) == 1 {
		for _, rt := range errorReturns(fn) {
			ret := rt[0].(*ssa.Return)
			ok := false
			if ex, isEx := rt[1].(ssa.Value).(*ssa.Extract); isEx && ex.Tuple == calls[0].Value() && ex.Index == 0 {
				ok = true
			}
			r.check(ok, rule, fn, "value returned by the builtin", ret.Pos(), "the Deref call's own result", "deref returns something other than what the one Deref call yielded")
		}
	}
	r.floor(rule, "Deref calls of the deref builtin", len(calls), 1)
}

// statusBuiltinRule: future-done? and future-cancelled? answer with the future's own status method and nothing
// else: the value the registered function returns is the result of that one call (no second condition mixed
// in: a cancelled future that has delivered is done).
func statusBuiltinRule(w *World, r *Report, rule string) {
	r.rule(rule, "the functions registered as future-done? and future-cancelled? return the result of (*Future).IsDone / IsCancelled as it is: the answer programs get is the flag the other rules examine, not a combination of it with something else")
	n := 0
	for lisp, method := range map[string]string{"future-done?": "IsDone", "future-cancelled?": "IsCancelled"} {
		fn := w.builtin(lisp)
		if fn == nil {
			r.undecided(rule, nil, lisp, token.NoPos, "the function registered under this name no longer resolves")
			continue
		}
		for _, rt := range errorReturns(fn) {
			ret := rt[0].(*ssa.Return)
			v, _ := rt[1].(ssa.Value)
			ev, _ := rt[2].(ssa.Value)
			if v == nil || (ev != nil && !isNilConst(ev)) {
				continue
			}
			n++
			ok := false
			if c, isC := v.(*ssa.Call); isC && c.Call.StaticCallee() != nil && c.Call.StaticCallee().Name() == method && c.Call.StaticCallee().Signature.Recv() != nil {
				ok = true
			}
			r.check(ok, rule, fn, "answer of "+lisp, ret.Pos(), "the result of "+method+"()", lisp+" answers with "+describeVal(nil, v, 0)+" instead of the future's "+method+"(): what programs are told about a future differs from its flag (a cancelled future whose outcome every deref returns is never done, say)")
		}
	}
	r.floor(rule, "answers of the status builtins", n, 2)
}

// ownLockRule: every scope has a mutex of its own.
func ownLockRule(w *World, r *Report, e *Engine, rule string) {
	r.rule(rule, "every scope has a mutex of its own: the mu field of an Env is only ever assigned a mutex allocated in the same activation (the ascent to the outer scope locks the outer scope while the inner one is read-locked; with one shared mutex that is a recursive read lock, which dead-locks as soon as a writer queues between the two)")
	nl := 0
	for _, fn := range w.pkgFuncs("env") {
		for _, b := range fn.Blocks {
			for _, in := range b.Instrs {
				st, ok := in.(*ssa.Store)
				if !ok {
					continue
				}
				fa, ok := st.Addr.(*ssa.FieldAddr)
				if !ok || fieldName(fa.X.Type(), fa.Field) != w.roles().envMu {
					continue
				}
				nl++
				al, isAl := st.Val.(*ssa.Alloc)
				r.check(isAl && al.Parent() == fn, rule, fn, "mutex given to a scope", st.Pos(), "a mutex allocated here", "the scope's mutex is not its own ("+describeVal(e, st.Val, 0)+"): scopes sharing a mutex turn the lookup's ascent into a recursive read lock")
			}
		}
	}
	r.floor(rule, "stores to Env.mu", nl, 1)
}

func otherCondOr(a, b ssa.Instruction) ssa.Instruction {
	if a != nil {
		return a
	}
	return b
}

// throwTotalRule: throw is how a lisp function fails. Its Go implementation returns a non-nil error on every
// path: a path that can return (nil, nil) - an error object that unwraps to nothing - makes a failing update
// function succeed with nil, and swap! installs that.
func throwTotalRule(w *World, r *Report, e *Engine, rule string) {
	r.rule(rule, "every return of the throw builtin (and the functions of its package it is built from) hands back an error that is known to be non-nil: a boxed concrete value, a new error, or a value under a non-nil guard - never the result of an accessor that may answer nil")
	fn := w.builtin("throw")
	if fn == nil {
		r.undecided(rule, nil, "throw builtin", token.NoPos, "function no longer resolves")
		return
	}
	n := 0
	ei := hasErrorResult(fn)
	for _, b := range fn.Blocks {
		if len(b.Instrs) == 0 || b == fn.Recover || ei < 0 {
			continue
		}
		ret, ok := b.Instrs[len(b.Instrs)-1].(*ssa.Return)
		if !ok || ei >= len(ret.Results) {
			continue
		}
		n++
		ev := resolveRet(ret.Results[ei])
		okErr := false
		switch x := ev.(type) {
		case *ssa.MakeInterface:
			okErr = true
			if _, isPtr := x.X.Type().Underlying().(*types.Pointer); isPtr {
				_, isAlloc := x.X.(*ssa.Alloc)
				okErr = isAlloc || e.nonNilFact(x.X, b)
			}
		case *ssa.Call:
			if sc := x.Call.StaticCallee(); sc != nil && (fnPkgPath(sc) == "errors" || fnPkgPath(sc) == "fmt" || e.alwaysErr(sc, 0)) {
				okErr = true
			}
		case *ssa.Extract:
			// the argument itself, found to be an error by the type switch: an interface that holds something
			if ta, isTA := x.Tuple.(*ssa.TypeAssert); isTA && ta.CommaOk && x.Index == 0 {
				for _, a := range knownConds(b) {
					if fx, isEx := a.v.(*ssa.Extract); isEx && fx.Tuple == ssa.Value(ta) && fx.Index == 1 && a.pol {
						okErr = true
					}
				}
			}
			okErr = okErr || e.nonNilFact(ev, b)
		default:
			okErr = !isNilConst(ev) && e.nonNilFact(ev, b)
		}
		r.check(okErr, rule, fn, "error returned by throw", ret.Pos(), "known to be non-nil", "throw can return without an error here ("+describeVal(e, ev, 0)+" may be nil): the form (throw x) then evaluates to nil, a failing update function reports success and swap! installs nil")
	}
	r.floor(rule, "returns of the throw builtin", n, 1)
}
