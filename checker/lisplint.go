package main

import (
	"fmt"
	"go/token"
	"golang.org/x/tools/go/ssa"
	"strings"
)

// derefsOf: does form s contain @A / (deref A)?
func derefsOf(s *sx, atom string) bool {
	found := false
	s.walk(func(x *sx) {
		if x.head() == "deref" && len(x.items) == 2 && x.items[1].kind == "sym" && x.items[1].text == atom {
			found = true
		}
	})
	return found
}

// atomLint: lisp code built on atoms must use them atomically:
//   - (reset! A E) where E reads A is a non-atomic read-modify-write (a concurrent update between the read
//     and the reset! is lost)
//   - a (swap! A ...) whose result is discarded, followed in the same body by a read of A, observes some later
//     value instead of the one this evaluation installed (gensym-style unique values are then not unique)
func atomLint(w *World, r *Report, rule string) {
	files, err := w.lispFiles()
	if err != nil {
		r.undecided(rule, nil, "lisp headers", token.NoPos, err.Error())
		return
	}
	n := 0
	for _, f := range files {
		for _, form := range f.forms {
			form.walk(func(s *sx) {
				h := s.head()
				if h == "reset!" && len(s.items) == 3 && s.items[1].kind == "sym" {
					n++
					a := s.items[1].text
					status, detail := "discharged", "the new value does not depend on a separate read of the atom"
					if derefsOf(s.items[2], a) {
						status, detail = "violated", "the new value is computed from a separate read of the same atom: an update made by another evaluation in between is lost (use swap!)"
					}
					r.addRaw(rule, f.path, "(reset! "+a+" …)", fmt.Sprintf("%s:%d", f.path, s.line), status, detail)
				}
				// bodies: fn / do / let / try bodies are sequences of forms
				var body []*sx
				switch h {
				case "fn", "let":
					if len(s.items) > 2 {
						body = s.items[2:]
					}
				case "do", "try":
					body = s.items[1:]
				}
				for i, b := range body {
					if b.head() != "swap!" || len(b.items) < 3 || b.items[1].kind != "sym" {
						continue
					}
					n++
					a := b.items[1].text
					if i == len(body)-1 {
						r.addRaw(rule, f.path, "(swap! "+a+" …) as the value of its body", fmt.Sprintf("%s:%d", f.path, b.line), "discharged", "the installed value is what the body yields")
						continue
					}
					later := false
					for _, nx := range body[i+1:] {
						if derefsOf(nx, a) {
							later = true
						}
					}
					status, detail := "discharged", "result discarded and the atom is not read again in this body"
					if later {
						status, detail = "violated", "the result of swap! is discarded and the atom is read again afterwards: another evaluation's update can be observed instead of the value installed here"
					}
					r.addRaw(rule, f.path, "(swap! "+a+" …) in statement position", fmt.Sprintf("%s:%d", f.path, b.line), status, detail)
				}
			})
		}
	}
	// swap! used as an expression elsewhere (e.g. inside str): fine by construction
	cnt := 0
	for _, f := range files {
		for _, form := range f.forms {
			form.walk(func(s *sx) {
				if s.head() == "swap!" {
					cnt++
				}
			})
		}
	}
	r.addRaw(rule, "-", "uses of swap! in the embedded headers", "-", "info", fmt.Sprintf("%d uses, %d checked in statement position / reset! forms", cnt, n))
	r.floor(rule, "uses of swap! in the embedded headers", cnt, 3)
}

// loadTimeAtoms: reviewed load-time atoms of the embedded headers, by the name their top-level def binds.
var loadTimeAtoms = map[string]string{
	"gensym":         "a counter only ever incremented through swap!; callers use the value swap! returned",
	"load-file-once": "a set of file names that only grows; membership decides whether a file is loaded again",
}

// loadTimeAtomRule: every (atom …) evaluated while a header is loaded, i.e. outside every fn body.
func loadTimeAtomRule(w *World, r *Report, rule string) {
	files, err := w.lispFiles()
	if err != nil {
		r.undecided(rule, nil, "lisp headers", token.NoPos, err.Error())
		return
	}
	n := 0
	var visit func(f *LispFileT, s *sx, def string, inFn bool)
	visit = func(f *LispFileT, s *sx, def string, inFn bool) {
		if s == nil {
			return
		}
		h := s.head()
		if s.macro == "quasiquote" || s.macro == "quote" {
			inFn = true
		}
		switch h {
		case "fn", "quasiquote", "quote":
			inFn = true // evaluated later (or never), not while loading
		case "def", "defmacro":
			if !inFn && len(s.items) > 1 && s.items[1].kind == "sym" && def == "" {
				def = s.items[1].text
			}
		}
		if h == "atom" && !inFn {
			n++
			status, detail := "violated", "an atom created at load time is captured by the definition of "+nz(def, "(no definition)")+": every evaluation on the environment shares it (for instance one cache for all memoized functions)"
			if reason, ok := loadTimeAtoms[def]; ok {
				status, detail = "discharged", "reviewed shared state: "+reason
			}
			r.addRaw(rule, f.path, "load-time (atom …) in the definition of "+nz(def, "-"), fmt.Sprintf("%s:%d", f.path, s.line), status, detail)
		}
		for _, it := range s.items {
			visit(f, it, def, inFn)
		}
	}
	for _, f := range files {
		for _, form := range f.forms {
			visit(f, form, "", false)
		}
	}
	r.floor(rule, "load-time atoms in the embedded headers", n, 2)
}

// updateFnLint: the update functions the library's own lisp code passes to swap! are the library's: they call
// builtins and header functions only, never a function value the caller supplied (a parameter of an enclosing
// fn). Such a function may reach the very atom being swapped - (def fib (memoize fib)) - and then every attempt
// finds the version changed: the compare-and-set never succeeds and swap! spins forever.
func updateFnLint(w *World, r *Report, rule string) {
	r.rule(rule, "in the embedded lisp headers, a function literal passed to swap! as the update function calls no function value received as a parameter of an enclosing fn (neither in head position nor through apply/map): caller-supplied code never runs inside the library's own compare-and-set loop, where an update of the same atom would make the swap retry forever")
	files, err := w.lispFiles()
	if err != nil {
		r.undecided(rule, nil, "lisp headers", token.NoPos, err.Error())
		return
	}
	n := 0
	paramsOf := func(s *sx) []string {
		var out []string
		if len(s.items) > 1 && (s.items[1].kind == "vector" || s.items[1].kind == "list") {
			for _, p := range s.items[1].items {
				if p.kind == "sym" && p.text != "&" {
					out = append(out, p.text)
				}
			}
		}
		return out
	}
	var visit func(f *LispFileT, s *sx, outer map[string]bool)
	visit = func(f *LispFileT, s *sx, outer map[string]bool) {
		if s == nil {
			return
		}
		h := s.head()
		if h == "swap!" && len(s.items) >= 3 && s.items[2].head() == "fn" {
			n++
			upd := s.items[2]
			own := map[string]bool{}
			for _, p := range paramsOf(upd) {
				own[p] = true
			}
			bad := ""
			for _, b := range upd.items[2:] {
				b.walk(func(x *sx) {
					if x.kind != "list" || len(x.items) == 0 {
						return
					}
					hd := x.items[0]
					if hd.kind == "sym" && outer[hd.text] && !own[hd.text] {
						bad = "(" + hd.text + " …)"
					}
					if hd.kind == "sym" && (hd.text == "apply" || hd.text == "map") && len(x.items) > 1 && x.items[1].kind == "sym" && outer[x.items[1].text] && !own[x.items[1].text] {
						bad = "(" + hd.text + " " + x.items[1].text + " …)"
					}
				})
			}
			status, detail := "discharged", "the update function calls builtins and header functions only"
			if bad != "" {
				status, detail = "violated", "the update function calls "+bad+", a function supplied by the caller: if it reaches this atom (a memoized function that calls its own memoized name) every compare-and-set fails and the swap never ends"
			}
			r.addRaw(rule, f.path, "update function literal of (swap! "+s.items[1].text+" …)", fmt.Sprintf("%s:%d", f.path, s.line), status, detail)
		}
		next := outer
		if h == "fn" {
			next = map[string]bool{}
			for k := range outer {
				next[k] = true
			}
			for _, p := range paramsOf(s) {
				next[p] = true
			}
		}
		for _, it := range s.items {
			visit(f, it, next)
		}
	}
	for _, f := range files {
		for _, form := range f.forms {
			visit(f, form, map[string]bool{})
		}
	}
	r.addRaw(rule, "-", "update function literals passed to swap! in the embedded headers", "-", "info", fmt.Sprintf("%d examined", n))
}

// rethrowLint: a value thrown again by lisp code is positioned anew, at the (throw …) form that throws it
// (the evaluator positions the error of a builtin call at the call form). A catch handler written in the
// embedded headers that passes what it caught to throw - itself or through a header function that throws
// the parameter it is given - therefore moves every error raised inside the library macro's operand into
// the header's module. (finally is how a library form does something on the way out of a failing operand.)
func rethrowLint(w *World, r *Report, rule string) {
	r.rule(rule, "no catch handler in the embedded lisp headers hands the value it caught to throw, directly or through a header function that throws one of its parameters: an error raised in the operand of a library macro leaves the macro with the position it had (a re-throw from the header would be positioned in the header's module)")
	files, err := w.lispFiles()
	if err != nil {
		r.undecided(rule, nil, "lisp headers", token.NoPos, err.Error())
		return
	}
	// header functions that throw a parameter: name -> indexes of the parameters thrown
	throwers := map[string]map[int]bool{}
	type fdef struct {
		name   string
		params []string
		body   []*sx
	}
	var defs []fdef
	for _, f := range files {
		for _, form := range f.forms {
			form.walk(func(s *sx) {
				if (s.head() == "def" || s.head() == "defmacro") && len(s.items) == 3 && s.items[1].kind == "sym" && s.items[2].head() == "fn" && len(s.items[2].items) >= 3 {
					fn := s.items[2]
					d := fdef{name: s.items[1].text, body: fn.items[2:]}
					for _, p := range fn.items[1].items {
						d.params = append(d.params, p.text)
					}
					defs = append(defs, d)
				}
			})
		}
	}
	// throws(body, sym): body contains (throw sym) or (f … sym …) with f throwing that parameter
	var throws func(body []*sx, sym string) string
	throws = func(body []*sx, sym string) string {
		found := ""
		for _, b := range body {
			b.walk(func(x *sx) {
				if x.kind != "list" || len(x.items) < 2 || x.items[0].kind != "sym" {
					return
				}
				if x.items[0].text == "throw" && x.items[1].kind == "sym" && x.items[1].text == sym {
					found = "(throw " + sym + ")"
				}
				if idx, ok := throwers[x.items[0].text]; ok {
					for i, a := range x.items[1:] {
						if a.kind == "sym" && a.text == sym && idx[i] {
							found = "(" + x.items[0].text + " … " + sym + " …), which throws that argument"
						}
					}
				}
			})
		}
		return found
	}
	for round := 0; round < 3; round++ {
		for _, d := range defs {
			for i, p := range d.params {
				if p != "&" && throws(d.body, p) != "" {
					if throwers[d.name] == nil {
						throwers[d.name] = map[int]bool{}
					}
					throwers[d.name][i] = true
				}
			}
		}
	}
	n := 0
	for _, f := range files {
		for _, form := range f.forms {
			form.walk(func(s *sx) {
				if s.head() != "catch" || len(s.items) < 2 || s.items[1].kind != "sym" {
					return
				}
				n++
				status, detail := "discharged", "the handler does not throw what it caught"
				if how := throws(s.items[2:], s.items[1].text); how != "" {
					status, detail = "violated", "the handler passes the caught value on with "+how+": the error leaves the library form positioned at that throw form in the header's module, not at the failing expression of the program"
				}
				r.addRaw(rule, f.path, "catch handler binding "+s.items[1].text, fmt.Sprintf("%s:%d", f.path, s.line), status, detail)
			})
		}
	}
	r.floor(rule, "catch handlers in the embedded headers", n, 3)
}

// headerRebindLint: the embedded headers are loaded after the Go builtins are registered, into the same
// environment: a (def name …) or (defmacro name …) there replaces the builtin of that name for every program.
// The names a property is stated about stay bound to the Go functions the other rules examine.
func headerRebindLint(w *World, r *Report, rule string, why string, names ...string) {
	r.rule(rule, "no form of the embedded lisp headers binds (def, defmacro) "+strings.Join(names, ", ")+": "+why)
	files, err := w.lispFiles()
	if err != nil {
		r.undecided(rule, nil, "lisp headers", token.NoPos, err.Error())
		return
	}
	want := map[string]bool{}
	for _, n := range names {
		want[n] = true
	}
	n, nd := 0, 0
	for _, f := range files {
		n++
		for _, form := range f.forms {
			form.walk(func(s *sx) {
				if (s.head() == "def" || s.head() == "defmacro") && len(s.items) >= 2 && s.items[1].kind == "sym" {
					nd++
					if want[s.items[1].text] {
						r.addRaw(rule, f.path, "("+s.head()+" "+s.items[1].text+" …)", fmt.Sprintf("%s:%d", f.path, s.line), "violated", "the header rebinds "+s.items[1].text+": every program that loads this library gets the lisp definition in place of the builtin ("+why+")")
					}
				}
			})
		}
	}
	r.addRaw(rule, "-", "definitions in the embedded headers", "-", "discharged", fmt.Sprintf("%d definitions in %d files, none of %s", nd, n, strings.Join(names, ", ")))
	r.floor(rule, "embedded header files", n, 3)
}

// monotoneAtomLint: where header code looks at an atom twice in one function body - (contains? @mem key) and
// then (get @mem key) - the two reads agree only as long as nothing the first read saw can have gone by the
// second: every swap! on that atom adds to the current value (assoc / conj / merge applied to the value
// itself). An update that can also start the table over, or remove from it, makes the check-then-read pair
// answer nil for a key that was there.
func monotoneAtomLint(w *World, r *Report, rule string) {
	r.rule(rule, "an atom of the embedded headers that some function reads twice in one body (a membership test followed by a read) only ever grows: every swap! on it applies assoc, conj or merge to the current value itself - directly, or in a (fn [m …] (assoc m …)) whose first operand is its own parameter")
	files, err := w.lispFiles()
	if err != nil {
		r.undecided(rule, nil, "lisp headers", token.NoPos, err.Error())
		return
	}
	countDerefs := func(s *sx, a string) int {
		n := 0
		s.walk(func(x *sx) {
			if x.head() == "deref" && len(x.items) == 2 && x.items[1].kind == "sym" && x.items[1].text == a {
				n++
			}
		})
		return n
	}
	grows := map[string]bool{"assoc": true, "conj": true, "merge": true, "cons": true, "inc": true, "+": true}
	n := 0
	for _, f := range files {
		for _, form := range f.forms {
			// atoms bound by let: (let [a (atom …)] body…)
			form.walk(func(s *sx) {
				if s.head() != "let" || len(s.items) < 3 || (s.items[1].kind != "list" && s.items[1].kind != "vector") {
					return
				}
				bs := s.items[1].items
				for i := 0; i+1 < len(bs); i += 2 {
					if bs[i].kind != "sym" || bs[i+1].head() != "atom" {
						continue
					}
					a := bs[i].text
					// read twice in one fn body?
					twice := false
					for _, b := range s.items[2:] {
						b.walk(func(x *sx) {
							if x.head() == "fn" && countDerefs(x, a) >= 2 {
								twice = true
							}
						})
					}
					if !twice {
						continue
					}
					// an entry is entered once: a function body that assocs the same key twice with different values
					// shows the first one (a placeholder for "in progress") to every reader in between as the result
					for _, b := range s.items[2:] {
						b.walk(func(fnx *sx) {
							if fnx.head() != "fn" {
								return
							}
							first := map[string]*sx{}
							fnx.walk(func(x *sx) {
								if x.head() != "swap!" || len(x.items) < 5 || x.items[1].kind != "sym" || x.items[1].text != a || x.items[2].kind != "sym" || x.items[2].text != "assoc" {
									return
								}
								key, val := x.items[3].String(), x.items[4].String()
								if prev, seen := first[key]; seen && prev.items[4].String() != val {
									n++
									r.addRaw(rule, f.path, "(swap! "+a+" assoc "+cut(key, 30)+" …) twice in one function", fmt.Sprintf("%s:%d", f.path, x.line), "violated", "the entry for "+cut(key, 30)+" is entered as "+cut(prev.items[4].String(), 30)+" (line "+fmt.Sprint(prev.line)+") and replaced by "+cut(val, 30)+" later in the same function: between the two every other reader of the atom that tests for the key and then reads it takes the first value for the result")
								} else if !seen {
									first[key] = x
								}
							})
						})
					}
					for _, b := range s.items[2:] {
						b.walk(func(x *sx) {
							if x.head() != "swap!" || len(x.items) < 3 || x.items[1].kind != "sym" || x.items[1].text != a {
								return
							}
							n++
							upd := x.items[2]
							ok := false
							switch {
							case upd.kind == "sym":
								ok = grows[upd.text]
							case upd.head() == "fn" && len(upd.items) >= 3 && len(upd.items[1].items) >= 1:
								p := upd.items[1].items[0].text
								body := upd.items[len(upd.items)-1]
								ok = body.kind == "list" && len(body.items) >= 2 && body.items[0].kind == "sym" && grows[body.items[0].text] && body.items[1].kind == "sym" && body.items[1].text == p
							}
							status, detail := "discharged", "the update adds to the current value"
							if !ok {
								status, detail = "violated", "the atom "+a+" is read twice by the code around it (test, then read) but this update does not simply add to the current value ("+cut(upd.String(), 70)+"): when it drops entries between the two reads of another evaluation, that evaluation gets nil for a key it has just found"
							}
							r.addRaw(rule, f.path, "(swap! "+a+" …) on an atom that is read twice", fmt.Sprintf("%s:%d", f.path, x.line), status, detail)
						})
					}
				}
			})
		}
	}
	r.floor(rule, "updates of atoms that are read twice", n, 1)
}

// handlerThrowLint: a catch handler of the embedded headers never throws anything of its own making in place of
// what it caught: a library form that wraps its operand in try (to log, to time, to clean up) and then throws
// another value - a different variable, a message - hands the program's catch something else than the program
// threw. (Handing on the very value caught is the business of C17.lisp-rethrow, which forbids it for the sake of
// positions; the library's handlers do neither.)
func handlerThrowLint(w *World, r *Report, rule string) {
	r.rule(rule, "no catch handler in the embedded lisp headers contains a throw of anything but the variable it caught (written plainly or as an unquoted template variable): an error raised in the operand of a library macro reaches the program's own catch, and the Go caller, as the object that was thrown - not as another variable's value or an 'unbound symbol' error")
	files, err := w.lispFiles()
	if err != nil {
		r.undecided(rule, nil, "lisp headers", token.NoPos, err.Error())
		return
	}
	// the name a binding or an operand is written as: a symbol, or an unquoted symbol inside a template
	nameOf := func(s *sx) string {
		if s.kind == "sym" {
			return s.text
		}
		if s.kind == "list" && s.macro == "unquote" && len(s.items) == 2 && s.items[1].kind == "sym" {
			return "~" + s.items[1].text
		}
		return ""
	}
	n := 0
	for _, f := range files {
		for _, form := range f.forms {
			form.walk(func(s *sx) {
				if s.head() != "catch" || len(s.items) < 2 {
					return
				}
				bound := nameOf(s.items[1])
				if bound == "" {
					return
				}
				n++
				bad := ""
				var visit func(x *sx)
				visit = func(x *sx) {
					if x.kind == "list" && x.head() == "catch" {
						return // an inner handler answers for itself
					}
					if x.kind == "list" && x.head() == "throw" && len(x.items) >= 2 {
						if nameOf(x.items[1]) != bound {
							bad = x.items[1].String()
						}
					}
					for _, it := range x.items {
						visit(it)
					}
				}
				for _, b := range s.items[2:] {
					visit(b)
				}
				status, detail := "discharged", "the handler throws nothing of its own"
				if bad != "" {
					status, detail = "violated", "the handler that caught "+bound+" throws "+bad+": what reaches the program's catch (and errors.Is in Go) is not the object that was thrown in the operand of the library form"
				}
				r.addRaw(rule, f.path, "catch handler binding "+bound, fmt.Sprintf("%s:%d", f.path, s.line), status, detail)
			})
		}
	}
	r.floor(rule, "catch handlers in the embedded headers", n, 3)
}

// loaderKeepsHeaderRule: the definitions of the embedded headers (not, cond, reduce, …) are the language programs
// get; a loader that binds a Go function under one of those names after the header was read replaces the
// definition for every program, with whatever the Go version does for the values the header's version handled.
func loaderKeepsHeaderRule(w *World, r *Report, rule string) {
	r.rule(rule, "no Go code of the library binds (a scope's Set with a literal symbol) a name that one of the embedded lisp headers defines: what a program gets under a header's name is the header's definition")
	files, err := w.lispFiles()
	if err != nil {
		r.undecided(rule, nil, "lisp headers", token.NoPos, err.Error())
		return
	}
	defined := map[string]string{}
	for _, f := range files {
		for _, form := range f.forms {
			if (form.head() == "def" || form.head() == "defmacro") && len(form.items) >= 2 && form.items[1].kind == "sym" {
				defined[form.items[1].text] = fmt.Sprintf("%s:%d", f.path, form.line)
			}
		}
	}
	n := 0
	for _, fn := range w.Funcs {
		if isTestFunc(w, fn) || !libraryPkg(fnPkgPath(fn)) {
			continue
		}
		for _, b := range fn.Blocks {
			for _, in := range b.Instrs {
				ci, ok := in.(ssa.CallInstruction)
				if !ok || !ci.Common().IsInvoke() || ci.Common().Method.Name() != "Set" || len(ci.Common().Args) != 2 {
					continue
				}
				name := symbolLiteral(ci.Common().Args[0])
				if name == "" {
					continue
				}
				n++
				where, clash := defined[name]
				status, detail := "discharged", "no header defines "+name
				if clash {
					status, detail = "violated", "Go code binds "+name+", which the header defines at "+where+": programs get the Go version instead of the language's own definition (for not: every value other than true counts as false)"
				}
				r.addRaw(rule, w.fnName(fn), "binding of "+name+" by Go code", w.pos(in.Pos()), status, detail)
			}
		}
	}
	r.floor(rule, "names bound by Go code with a literal symbol", n, 1)
}
