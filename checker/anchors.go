package main

// Structural anchors: the unexported functions the rules are anchored in are looked up by name first (so that
// reports read naturally) and, when the name is gone, by what they are: their place in the call structure below
// an exported entry point and their signature.  Renaming an unexported function therefore changes no verdict.
// `lispcheck -check-anchors` compares both resolutions on the tree at hand.

import (
	"go/types"
	"strings"

	"golang.org/x/tools/go/ssa"
)

type anchorFn func(w *World) *ssa.Function

func typeHas(t types.Type, suffix string) bool { return strings.HasSuffix(t.String(), suffix) }

func sigParams(f *ssa.Function) []types.Type {
	var out []types.Type
	ps := f.Signature.Params()
	for i := 0; i < ps.Len(); i++ {
		out = append(out, ps.At(i).Type())
	}
	return out
}
func sigResults(f *ssa.Function) []types.Type {
	var out []types.Type
	rs := f.Signature.Results()
	for i := 0; i < rs.Len(); i++ {
		out = append(out, rs.At(i).Type())
	}
	return out
}
func hasParam(f *ssa.Function, suffix string) bool {
	for _, t := range sigParams(f) {
		if typeHas(t, suffix) {
			return true
		}
	}
	return false
}
func countParams(f *ssa.Function, pred func(types.Type) bool) int {
	n := 0
	for _, t := range sigParams(f) {
		if pred(t) {
			n++
		}
	}
	return n
}
func isBasic(t types.Type, kind types.BasicKind) bool {
	b, ok := t.Underlying().(*types.Basic)
	return ok && b.Kind() == kind
}

// staticCalleesIn: the functions of f's own package that f (or a closure nested in it) calls statically.
func staticCalleesIn(f *ssa.Function) []*ssa.Function {
	if f == nil {
		return nil
	}
	seen := map[*ssa.Function]bool{}
	var out []*ssa.Function
	for _, g := range append([]*ssa.Function{f}, allAnon(f)...) {
		for _, b := range g.Blocks {
			for _, in := range b.Instrs {
				ci, ok := in.(ssa.CallInstruction)
				if !ok {
					continue
				}
				sc := ci.Common().StaticCallee()
				if sc == nil || sc.Pkg != f.Pkg || sc.Parent() != nil || seen[sc] {
					continue
				}
				seen[sc] = true
				out = append(out, sc)
			}
		}
	}
	return out
}

func callsStatic(f *ssa.Function, pred func(*ssa.Function) bool) bool {
	for _, g := range append([]*ssa.Function{f}, allAnon(f)...) {
		for _, b := range g.Blocks {
			for _, in := range b.Instrs {
				if ci, ok := in.(ssa.CallInstruction); ok {
					if sc := ci.Common().StaticCallee(); sc != nil && pred(sc) {
						return true
					}
				}
			}
		}
	}
	return false
}

// unique: the only element satisfying pred, else nil.
func unique(fs []*ssa.Function, pred func(*ssa.Function) bool) *ssa.Function {
	var found *ssa.Function
	for _, f := range fs {
		if f == nil || !pred(f) {
			continue
		}
		if found != nil && found != f {
			return nil
		}
		found = f
	}
	return found
}

func evalSigLike(f *ssa.Function) bool {
	p, r := sigParams(f), sigResults(f)
	return len(p) == 3 && isContext(p[0]) && isMalType(p[1]) && typeHas(p[2], "types.EnvType") && len(r) == 2 && isMalType(r[0]) && isErrorType(r[1])
}

var anchorTable map[string]anchorFn

func init() {
	anchorTable = map[string]anchorFn{
		// --- evaluator (root package), below EVAL
		"|do": func(w *World) *ssa.Function {
			return unique(staticCalleesIn(w.Fn("", "EVAL")), func(f *ssa.Function) bool {
				return countParams(f, func(t types.Type) bool { return isBasic(t, types.Int) }) >= 2 && hasParam(f, "types.EnvType")
			})
		},
		"|eval_ast": func(w *World) *ssa.Function {
			ev := w.Fn("", "EVAL")
			return unique(staticCalleesIn(ev), func(f *ssa.Function) bool {
				return f != ev && evalSigLike(f) && callsStatic(f, func(g *ssa.Function) bool { return g == ev }) && !callsStatic(f, func(g *ssa.Function) bool { return g == w.Fn("types", "Apply") })
			})
		},
		"|macroexpand": func(w *World) *ssa.Function {
			return unique(staticCalleesIn(w.Fn("", "EVAL")), func(f *ssa.Function) bool {
				return f != w.Fn("", "EVAL") && evalSigLike(f) && callsStatic(f, func(g *ssa.Function) bool { return g == w.Fn("types", "Apply") })
			})
		},
		"|is_macro_call": func(w *World) *ssa.Function {
			return unique(staticCalleesIn(w.Fn("", "macroexpand")), func(f *ssa.Function) bool {
				r := sigResults(f)
				return len(r) == 1 && isBasic(r[0], types.Bool) && hasParam(f, "types.EnvType")
			})
		},
		"|quasiquote": func(w *World) *ssa.Function {
			return unique(staticCalleesIn(w.Fn("", "EVAL")), func(f *ssa.Function) bool {
				p, r := sigParams(f), sigResults(f)
				return len(p) == 1 && isMalType(p[0]) && len(r) >= 1 && isMalType(r[0])
			})
		},
		"|qq_loop": func(w *World) *ssa.Function {
			return unique(staticCalleesIn(w.Fn("", "quasiquote")), func(f *ssa.Function) bool {
				p, r := sigParams(f), sigResults(f)
				if len(p) != 1 || len(r) < 1 || !isMalType(r[0]) {
					return false
				}
				_, isSlice := p[0].Underlying().(*types.Slice)
				return isSlice
			})
		},
		"|starts_with": func(w *World) *ssa.Function {
			cands := append(staticCalleesIn(w.Fn("", "quasiquote")), staticCalleesIn(w.Fn("", "qq_loop"))...)
			return unique(cands, func(f *ssa.Function) bool {
				p, r := sigParams(f), sigResults(f)
				return len(p) == 2 && isBasic(p[1], types.String) && len(r) == 1 && isBasic(r[0], types.Bool)
			})
		},
		// --- reader, below Read_str
		"reader|tokenize": func(w *World) *ssa.Function {
			return unique(w.pkgFuncs("reader"), func(f *ssa.Function) bool {
				return f.Parent() == nil && callsStatic(f, func(g *ssa.Function) bool {
					return g.Name() == "Scan" && g.Object() != nil && g.Object().Pkg() != nil && strings.HasSuffix(g.Object().Pkg().Path(), "scanner")
				})
			})
		},
		"reader|read_form": func(w *World) *ssa.Function {
			// the dispatcher: what read_list calls for each element, and which calls read_list for a nested list
			rl := w.Fn("reader", "read_list")
			return unique(staticCalleesIn(rl), func(f *ssa.Function) bool {
				r := sigResults(f)
				return f != rl && hasParam(f, "reader.tokenReader") && len(r) == 2 && isMalType(r[0]) && isErrorType(r[1]) && callsStatic(f, func(g *ssa.Function) bool { return g == rl })
			})
		},
		"reader|read_list": func(w *World) *ssa.Function {
			return unique(w.pkgFuncs("reader"), func(f *ssa.Function) bool {
				return f.Parent() == nil && hasParam(f, "reader.tokenReader") && countParams(f, func(t types.Type) bool { return isBasic(t, types.String) }) >= 2
			})
		},
		"reader|read_atom": func(w *World) *ssa.Function {
			return unique(staticCalleesIn(w.Fn("reader", "read_form")), func(f *ssa.Function) bool {
				return hasParam(f, "reader.tokenReader") && callsStatic(f, func(g *ssa.Function) bool { return fnPkgPath(g) == "strconv" })
			})
		},
		"reader|read_placeholder": func(w *World) *ssa.Function {
			rl, rf := w.Fn("reader", "read_list"), w.Fn("reader", "read_form")
			return unique(staticCalleesIn(rf), func(f *ssa.Function) bool {
				return f != rl && hasParam(f, "reader.tokenReader") && hasParam(f, "types.HashMap") && !callsStatic(f, func(g *ssa.Function) bool { return g == rl || g == rf }) &&
					!callsStatic(f, func(g *ssa.Function) bool { return fnPkgPath(g) == "strconv" })
			})
		},
		// --- binder
		"lib/call|call": func(w *World) *ssa.Function {
			a, b := w.Fn("lib/call", "Call"), w.Fn("lib/call", "CallOverrideFN")
			inB := map[*ssa.Function]bool{}
			for _, f := range staticCalleesIn(b) {
				inB[f] = true
			}
			return unique(staticCalleesIn(a), func(f *ssa.Function) bool { return inB[f] })
		},
		"lib/call|_args_ctx": func(w *World) *ssa.Function {
			return unique(w.pkgFuncs("lib/call"), func(f *ssa.Function) bool {
				r := sigResults(f)
				return f.Parent() == nil && len(r) == 1 && typeHas(r[0], "[]reflect.Value") && len(sigParams(f)) > 0 && isContext(sigParams(f)[0])
			})
		},
		"lib/call|_args": func(w *World) *ssa.Function {
			return unique(w.pkgFuncs("lib/call"), func(f *ssa.Function) bool {
				r := sigResults(f)
				return f.Parent() == nil && len(r) == 1 && typeHas(r[0], "[]reflect.Value") && len(sigParams(f)) > 0 && !isContext(sigParams(f)[0])
			})
		},
		"lib/call|_recover": func(w *World) *ssa.Function {
			return unique(w.pkgFuncs("lib/call"), func(f *ssa.Function) bool { return f.Parent() == nil && w.recoverHandler(f) })
		},
		"lib/call|_nil_nil":      func(w *World) *ssa.Function { return resultMapper(w, -1) },
		"lib/call|_nil_error":    func(w *World) *ssa.Function { return resultMapper(w, 0) },
		"lib/call|_result_error": func(w *World) *ssa.Function { return resultMapper(w, 1) },
		// --- REPL, env
		"repl|multiLine": func(w *World) *ssa.Function {
			return unique(staticCalleesIn(w.Fn("repl", "Execute")), func(f *ssa.Function) bool {
				p, r := sigParams(f), sigResults(f)
				return len(p) == 1 && isErrorType(p[0]) && len(r) == 1 && isBasic(r[0], types.Bool)
			})
		},
		"env|_newSubordinateEnvWithBinds": func(w *World) *ssa.Function {
			return unique(staticCalleesIn(w.Fn("env", "NewSubordinateEnvWithBinds")), func(f *ssa.Function) bool {
				r := sigResults(f)
				return len(r) == 2 && isErrorType(r[1]) // (a function of three parameters, or a method of the outer scope)
			})
		},
	}
}

// resultMapper: the function of the binder with signature ([]reflect.Value) (MalType, error) whose highest
// constant index into its parameter is maxIdx (-1: it does not look at the results at all).
func resultMapper(w *World, maxIdx int64) *ssa.Function {
	return unique(w.pkgFuncs("lib/call"), func(f *ssa.Function) bool {
		p, r := sigParams(f), sigResults(f)
		if f.Parent() != nil || len(p) != 1 || !typeHas(p[0], "[]reflect.Value") || len(r) != 2 || !isMalType(r[0]) || !isErrorType(r[1]) {
			return false
		}
		hi := int64(-1)
		for _, b := range f.Blocks {
			for _, in := range b.Instrs {
				if ia, ok := in.(*ssa.IndexAddr); ok && ia.X == ssa.Value(f.Params[0]) {
					if k, ok := ia.Index.(*ssa.Const); ok && k.Value != nil && k.Int64() > hi {
						hi = k.Int64()
					}
				}
			}
		}
		return hi == maxIdx
	})
}

var anchorBusy = map[string]bool{}

// anchorOf resolves a named anchor structurally (nil when there is no resolver or no unique answer).
func (w *World) anchorOf(pkgRel, name string) *ssa.Function {
	key := pkgRel + "|" + name
	res, ok := anchorTable[key]
	if !ok || anchorBusy[key] {
		return nil
	}
	anchorBusy[key] = true
	defer delete(anchorBusy, key)
	return res(w)
}

var roleNames map[*ssa.Function]string

// roleName: the name an anchored function is known by in exemption keys: the name of the part it plays
// (its original name) when it is one of the structural anchors, else its own name.
func (w *World) roleName(f *ssa.Function) string {
	if roleNames == nil {
		roleNames = map[*ssa.Function]string{}
		for k := range anchorTable {
			i := strings.Index(k, "|")
			if g := w.Fn(k[:i], k[i+1:]); g != nil {
				roleNames[g] = k[i+1:]
			}
		}
	}
	if n, ok := roleNames[f]; ok {
		return n
	}
	if w.isTokenNext(f) {
		return "next"
	}
	if w.isTokenPeek(f) {
		return "peek"
	}
	return f.Name()
}

// isReaderFn: a parsing function of the reader: takes the token reader, answers (…, error).
func isReaderFn(f *ssa.Function) bool {
	return f != nil && f.Parent() == nil && fnPkgPath(f) == modPath+"/reader" && f.Signature.Recv() == nil && hasParam(f, "reader.tokenReader") && hasErrorResult(f) >= 0
}

// tokenAccessors: the methods of the token reader that hand out a token: next (advances the cursor: it stores
// into the receiver) and peek (does not).
func (w *World) tokenAccessors() (next, peek *ssa.Function) {
	for _, f := range w.Funcs {
		if isTestFunc(w, f) || fnPkgPath(f) != modPath+"/reader" || f.Signature.Recv() == nil || !typeHas(f.Signature.Recv().Type(), "reader.tokenReader") || len(f.Blocks) == 0 {
			continue
		}
		r := sigResults(f)
		if len(r) != 1 || !isTokenStruct(r[0]) {
			continue
		}
		writes := false
		for _, b := range f.Blocks {
			for _, in := range b.Instrs {
				if st, ok := in.(*ssa.Store); ok {
					if fa, ok := st.Addr.(*ssa.FieldAddr); ok && fa.X == ssa.Value(f.Params[0]) {
						writes = true
					}
				}
			}
		}
		if writes {
			if next != nil && next != f {
				return nil, nil
			}
			next = f
		} else if f.Name() == "peek" || peek == nil {
			peek = f
		}
	}
	return next, peek
}

func (w *World) isTokenNext(f *ssa.Function) bool {
	n, _ := w.tokenAccessors()
	return f != nil && f == n
}
func (w *World) isTokenPeek(f *ssa.Function) bool {
	_, p := w.tokenAccessors()
	return f != nil && f == p
}

// builtin: the Go function registered under a lisp name in lib/core: through CallOverrideFN (the Go name is
// then free) or through Call (the lisp name is the Go name with _ for -).
func (w *World) builtin(lisp string) *ssa.Function {
	if f, _ := w.registeredOverride(lisp); f != nil {
		return f
	}
	return w.Fn("lib/core", strings.ReplaceAll(lisp, "-", "_"))
}
