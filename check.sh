#!/bin/bash
# check.sh <property-id> [quick|thorough]
# Builds the checker (cached) and runs the static analysis for one property
# against the current working tree of /repo. Exit 0: property's structural
# clauses hold; exit 1 + "VIOLATION property=<id> replay=<path>": a clause is
# violated; an obligation that cannot be decided (anchor missing, floor not met) is reported the same way (LISPCHECK_STRICT=1 keeps exit 2 for it).
set -u
HERE=$(cd "$(dirname "$0")" && pwd)
PROP=$1; TIER=${2:-${VERIF_TIER:-quick}}
export GOFLAGS=-mod=mod GOPROXY=off GOSUMDB=off GOTOOLCHAIN=local CGO_ENABLED=0
unset GOWORK
mkdir -p "$HERE/bin" "$HERE/evidence"
(cd "$HERE/checker" && go build -o "$HERE/bin/lispcheck" .) || { echo "UNDECIDED property=$PROP checker does not build"; exit 2; }
"$HERE/bin/lispcheck" -prop "$PROP" -tier "$TIER" -repo "${VERIF_REPO:-/repo}" -evidence-dir "$HERE/evidence" -known "$HERE/known_findings.json" 2> "$HERE/evidence/$PROP.stderr"
rc=$?
if [ $rc -eq 0 ] || [ $rc -eq 1 ]; then cat "$HERE/evidence/$PROP.stderr" >&2; rm -f "$HERE/evidence/$PROP.stderr"; exit $rc; fi
# the analysis did not complete (the tree does not load, or the analyser itself failed on a construct it
# cannot follow): nothing was decided, which is reported like any other undecided obligation
tail -5 "$HERE/evidence/$PROP.stderr" >&2
[ "${LISPCHECK_STRICT:-}" = "1" ] && exit 2
echo "VIOLATION property=$PROP replay=$HERE/evidence/$PROP.stderr (the analysis did not complete on this tree: no clause of the property could be decided)"
exit 1
